#!/bin/bash
# Re-confirms every stored seeded change against the checks listed in its meta.json (quick tier).
cd "$(dirname "$0")/.." || exit 2
rc=0
for d in seeded/*/; do
  id=$(basename "$d")
  checks=$(python3 -c "import json;print(' '.join(json.load(open('$d/meta.json'))['checks_run']))")
  out=$(tools/seedeval.sh "$d" $checks 2>&1)
  echo "$out" | grep -E '^(CAUGHT|MISSED)' | sed "s/^/$id: /" | cut -c1-160
  echo "$out" | grep -q '^MISSED' && rc=1
  echo "$out" | grep -qE 'bad seed|PATCH-FAILED|FAIL consistently' && { echo "$id: SEED-PROBLEM $(echo "$out" | grep -E 'bad seed|PATCH-FAILED|FAIL consistently' | head -1)"; rc=1; }
done
exit $rc
