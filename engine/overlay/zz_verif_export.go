//go:build verif

// This file is injected into package websocket through `go build -overlay` (it does not
// exist in /repo).  It only exposes what the verification harnesses need.

package websocket

import (
	"crypto/rand"
	"fmt"
	"io"
	"net"
	"net/http"
	"net/url"
	"reflect"
	"strings"
)

// VerifNewConn wraps newConn; compress installs the negotiated permessage-deflate hooks
// exactly as Upgrade / DialContext do.
func VerifNewConn(nc net.Conn, isServer bool, readBufferSize, writeBufferSize int, pool BufferPool, compress bool) *Conn {
	c := newConn(nc, isServer, readBufferSize, writeBufferSize, pool, nil, nil)
	if compress {
		c.newCompressionWriter = compressNoContextTakeover
		c.newDecompressionReader = decompressNoContextTakeover
	}
	return c
}

// VerifState dumps the private fields named below by reflection (used for state hashing
// only, never as an oracle).  Missing fields are reported as "?".
func (c *Conn) VerifState() string {
	v := reflect.ValueOf(c).Elem()
	var sb strings.Builder
	for _, name := range []string{"readRemaining", "readFinal", "readLength", "readMaskPos", "readDecompress", "isWriting", "enableWriteCompression", "compressionLevel", "readErrCount"} {
		f := v.FieldByName(name)
		if !f.IsValid() {
			fmt.Fprintf(&sb, "%s=? ", name)
			continue
		}
		switch f.Kind() {
		case reflect.Bool:
			fmt.Fprintf(&sb, "%s=%v ", name, f.Bool())
		case reflect.Int, reflect.Int64:
			fmt.Fprintf(&sb, "%s=%d ", name, f.Int())
		}
	}
	for _, name := range []string{"readErr", "writeErr", "reader", "writer", "writeBuf", "messageReader"} {
		f := v.FieldByName(name)
		if !f.IsValid() {
			fmt.Fprintf(&sb, "%s=? ", name)
			continue
		}
		fmt.Fprintf(&sb, "%s=%v ", name, !f.IsNil())
	}
	if f := v.FieldByName("mu"); f.IsValid() {
		fmt.Fprintf(&sb, "mu=%d ", f.Len())
	}
	return sb.String()
}

// VerifSetMaskRand replaces the package's mask key source.
func VerifSetMaskRand(r io.Reader) (restore func()) {
	old := maskRand
	maskRand = r
	return func() { maskRand = old }
}

// VerifMaskRandIsCryptoRand reports whether the mask key source is crypto/rand.Reader.
func VerifMaskRandIsCryptoRand() bool { return maskRand == rand.Reader }

func VerifMaskBytes(key [4]byte, pos int, b []byte) int { return maskBytes(key, pos, b) }

func VerifTokenListContainsValue(h http.Header, name, value string) bool {
	return tokenListContainsValue(h, name, value)
}

func VerifParseExtensions(h http.Header) []map[string]string { return parseExtensions(h) }

func VerifCheckSameOrigin(r *http.Request) bool { return checkSameOrigin(r) }

func VerifHostPortNoPort(u *url.URL) (string, string) { return hostPortNoPort(u) }

func VerifComputeAcceptKey(k string) string { return computeAcceptKey(k) }

func VerifIsValidChallengeKey(k string) bool { return isValidChallengeKey(k) }

// VerifPoolBuf peeks into a value the connection put into a BufferPool.
func VerifPoolBuf(v interface{}) []byte {
	if w, ok := v.(writePoolData); ok {
		return w.buf
	}
	return nil
}

var verifResetPools func()

// VerifResetPools empties the package-level pools (no-op when the pools file is not built in).
func VerifResetPools() {
	if verifResetPools != nil {
		verifResetPools()
	}
}

var verifPoolCensus func() (writers, readers int)

// VerifPoolCensus counts, per package-level pool family, the objects that sit in a pool more than
// once (two future Gets would hand the same compressor or decompressor to two connections).
// The pools are left as they were found.  Used as a trigger for a property-level probe, never as
// an oracle by itself.
func VerifPoolCensus() (writers, readers int) {
	if verifPoolCensus != nil {
		return verifPoolCensus()
	}
	return 0, 0
}
