module verif.local

go 1.23

require github.com/gorilla/websocket v0.0.0

require golang.org/x/net v0.26.0

replace github.com/gorilla/websocket => /repo
