//go:build verif

package checks

import (
	"bytes"
	"fmt"
	"os"
	"time"

	"github.com/gorilla/websocket"
	"verif.local/engine/explore"
	"verif.local/ref/netsim"
	"verif.local/ref/wsref"
)

func init() {
	Register(&Check{
		ID:          "C19",
		Technique:   "exhaustive deviation-bounded enumeration of send sequences of one PreparedMessage over connections of differing role / negotiated compression / write-compression setting / level (sequential), plus stateless model checking under the controlled scheduler (plain and -race builds) of concurrent sends that collide on the same cached frame",
		Rule:        "sequential: {5 message types} x {11 payload sizes} x sequences of <= 4 sends over 32 connection kinds (first send free, later sends / setting changes / mutation of the caller's slice deviation-bounded), each send judged by the independent decoder against a WriteMessage twin; concurrent: 3 threads sending one PreparedMessage on 3 connections (same kind = same cache key, and mixed kinds), all schedules within the preemption bound, both flavours. non-trivial = at least one send and a non-default choice; distinct by observation hash",
		Assumptions: []string{"compress/flate inflater trusted", "races = those ThreadSanitizer reports on explored schedules"},
		Flavour:     "mixed",
		Budget:      map[string]time.Duration{"quick": 100 * time.Second, "thorough": 20 * time.Minute},
		Bound:       map[string]string{"quick": "deviations <= 2 (sequential), preemptions <= 2 / 1 (-race)", "thorough": "deviations <= 3, sequences <= 5, levels -2..9, preemptions <= 3 / 2"},
		Scenarios:   c19Scenarios,
	})
}

type connKind struct {
	server, negotiated, wcomp bool
	level                     int
}

func (k connKind) String() string {
	return fmt.Sprintf("%s/neg=%v/wcomp=%v/l=%d", roleName(k.server), k.negotiated, k.wcomp, k.level)
}

func c19Kinds(tier string) []connKind {
	levels := []int{1, -2, 0, 9}
	if tier == "thorough" {
		levels = []int{1, -2, -1, 0, 2, 3, 4, 5, 6, 7, 8, 9}
	}
	var ks []connKind
	for _, server := range []bool{true, false} {
		for _, neg := range []bool{false, true} {
			for _, wc := range []bool{true, false} {
				for _, l := range levels {
					ks = append(ks, connKind{server, neg, wc, l})
				}
			}
		}
	}
	return ks
}

var c19Types = []int{websocket.TextMessage, websocket.BinaryMessage, websocket.PingMessage, websocket.PongMessage, websocket.CloseMessage}
var c19Sizes = []int{0, 1, 125, 126, 4095, 4096, 4097, 8193, 65535, 65536, 70000}

func c19Scenarios(tier string) []*explore.Scenario {
	var scs []*explore.Scenario
	bound, seqLen := 2, 4
	if tier == "thorough" {
		bound, seqLen = 3, 5
	}
	for _, mt := range c19Types {
		for _, n := range c19Sizes {
			mt, n := mt, n
			scs = append(scs, &explore.Scenario{Name: fmt.Sprintf("c19/seq/type=%d/size=%d", mt, n), Bound: bound, Body: func(x *explore.Ctx) { c19Seq(x, mt, n, seqLen, tier) }})
		}
	}
	for _, flavour := range []string{"sched", "race"} {
		if flavour == "race" && os.Getenv("VERIF_NO_RACE") != "" {
			continue
		}
		for _, mix := range []string{"same-kind", "two-same-one-other", "all-different"} {
			for _, n := range []int{5, 5000} {
				flavour, mix, n := flavour, mix, n
				b := 2
				if tier == "thorough" {
					b = 3
				}
				if flavour == "race" {
					b--
				}
				scs = append(scs, &explore.Scenario{Name: fmt.Sprintf("c19/%s/concurrent/%s/size=%d", flavour, mix, n), Bound: b, Flavour: flavour, Body: func(x *explore.Ctx) { c19Conc(x, mix, n) }})
			}
		}
	}
	return scs
}

type c19Conn struct {
	kind connKind
	nc   *netsim.Conn
	c    *websocket.Conn
	pos  int
}

func newC19Conn(k connKind) *c19Conn {
	nc := netsim.NewConn(nil)
	c := websocket.VerifNewConn(nc, k.server, 0, 0, nil, k.negotiated)
	c.EnableWriteCompression(k.wcomp)
	c.SetCompressionLevel(k.level)
	return &c19Conn{kind: k, nc: nc, c: c}
}

// judgeSend decodes what the last call appended to the connection's wire.
func (cc *c19Conn) judgeSend(x *explore.Ctx, what string, mt int, payload []byte) {
	k := cc.kind
	key := func(s string) string { return fmt.Sprintf("C19:%s:%s:type=%d", s, what, mt) }
	newBytes := cc.nc.Out[cc.pos:]
	cc.pos = len(cc.nc.Out)
	d, err := wsref.DecodeStrict(newBytes, wsref.StrictOpts{Sender: RoleOf(k.server), Deflate: k.negotiated})
	x.Check(err == nil, key("malformed"), "%s on %s: wire bytes malformed: %v", what, k, err)
	x.Check(len(d.Messages) == 1, key("message-count"), "%s on %s: %d messages on the wire", what, k, len(d.Messages))
	m := d.Messages[0]
	x.Check(m.Type == mt, key("type"), "%s on %s: opcode %d, want %d", what, k, m.Type, mt)
	x.Check(bytes.Equal(m.Payload, payload), key("payload"), "%s on %s: decodes to %s (%d bytes), want the creation-time payload %s (%d bytes)", what, k, short(m.Payload), len(m.Payload), short(payload), len(payload))
	wantComp := k.negotiated && k.wcomp && (mt == websocket.TextMessage || mt == websocket.BinaryMessage)
	x.Check(m.Compressed == wantComp, key("variant"), "%s on %s: RSV1=%v, the connection's settings at the time of the call require %v", what, k, m.Compressed, wantComp)
}

func c19Seq(x *explore.Ctx, mt, n, seqLen int, tier string) {
	kinds := c19Kinds(tier)
	orig := Pattern(3, n)
	if mt == websocket.CloseMessage && n >= 2 {
		orig = append(wsref.CloseBody(1000, ""), Pattern(4, n-2)...)
	}
	callerSlice := append([]byte{}, orig...)
	pm, err := websocket.NewPreparedMessage(mt, callerSlice)
	isCtl := mt >= 8
	if isCtl && n > 125 {
		x.Obs("creation refused: %v", err != nil)
		x.Check(err != nil, fmt.Sprintf("C19:oversized-control-accepted:type=%d", mt), "NewPreparedMessage(%d, %d bytes) succeeded", mt, n)
		return
	}
	if mt == websocket.CloseMessage && n == 1 {
		return // not a valid close payload
	}
	x.Check(err == nil, fmt.Sprintf("C19:creation-failed:type=%d", mt), "NewPreparedMessage(%d, %d bytes): %v", mt, n, err)
	x.NonTrivial()
	conns := map[int]*c19Conn{}
	twins := map[int]*c19Conn{}
	cur := x.Pick(len(kinds), "send0.kind")
	mutated := false
	if len(callerSlice) > 0 && x.Pick(2, "overwrite-caller-slice-after-creation") == 1 {
		for j := range callerSlice {
			callerSlice[j] ^= 0xa5
		}
		mutated = true
	}
	closeSentOn := map[int]bool{}
	for i := 0; i < seqLen; i++ {
		if i > 0 {
			if x.Choose(2, fmt.Sprintf("send%d.more", i)) == 0 {
				break
			}
			// 0 = the same connection again; otherwise another kind
			if v := x.Choose(len(kinds), fmt.Sprintf("send%d.kind", i)); v != 0 {
				cur = (cur + v) % len(kinds)
			}
			// a setting change on that connection before the send
			switch x.Choose(4, fmt.Sprintf("send%d.setting-change", i)) {
			case 1:
				if cc := conns[cur]; cc != nil {
					cc.kind.wcomp = !cc.kind.wcomp
					cc.c.EnableWriteCompression(cc.kind.wcomp)
				}
			case 2:
				if cc := conns[cur]; cc != nil {
					cc.kind.level = 9 - cc.kind.level%9
					if cc.kind.level > 9 || cc.kind.level < -2 {
						cc.kind.level = 5
					}
					cc.c.SetCompressionLevel(cc.kind.level)
				}
			case 3:
				if !mutated && len(callerSlice) > 0 {
					for j := range callerSlice {
						callerSlice[j] ^= 0xa5
					}
					mutated = true
					x.Obs("caller's slice overwritten")
				}
			}
		}
		cc := conns[cur]
		if cc == nil {
			cc = newC19Conn(kinds[cur])
			conns[cur] = cc
			twins[cur] = newC19Conn(kinds[cur])
		}
		err := cc.c.WritePreparedMessage(pm)
		x.Obs("send %d on %s -> %v", i, cc.kind, err)
		if closeSentOn[cur] {
			x.Check(err == websocket.ErrCloseSent, "C19:prepared-after-close", "WritePreparedMessage after a prepared close returned %v, want ErrCloseSent", err)
			continue
		}
		x.Check(err == nil, fmt.Sprintf("C19:send-failed:type=%d", mt), "WritePreparedMessage on %s: %v", cc.kind, err)
		cc.judgeSend(x, "WritePreparedMessage", mt, orig)
		// the twin: what WriteMessage sends on a connection with the same settings right now
		tw := twins[cur]
		tw.kind = cc.kind
		tw.c.EnableWriteCompression(cc.kind.wcomp)
		tw.c.SetCompressionLevel(cc.kind.level)
		if terr := tw.c.WriteMessage(mt, orig); terr != nil {
			x.Failf("C19:twin-failed", "WriteMessage on the twin connection failed: %v", terr)
		}
		tw.judgeSend(x, "WriteMessage(twin)", mt, orig)
		if mt == websocket.CloseMessage {
			closeSentOn[cur] = true
			// prepared close obeys the close rules: later writes fail
			e2 := cc.c.WriteMessage(websocket.TextMessage, []byte("x"))
			x.Check(e2 == websocket.ErrCloseSent, "C19:write-after-prepared-close", "WriteMessage after a prepared close returned %v, want ErrCloseSent", e2)
			x.Check(len(cc.nc.Out) == cc.pos, "C19:bytes-after-prepared-close", "bytes written after a prepared close")
			twins[cur] = newC19Conn(kinds[cur])
		}
	}
}

func c19Conc(x *explore.Ctx, mix string, n int) {
	s, l := newSched(x)
	payload := Pattern(3, n)
	pm, err := websocket.NewPreparedMessage(websocket.BinaryMessage, payload)
	if err != nil {
		x.Failf("C19:creation-failed", "%v", err)
	}
	var kinds []connKind
	switch mix {
	case "same-kind":
		k := connKind{false, true, true, 1}
		kinds = []connKind{k, k, k}
	case "two-same-one-other":
		k := connKind{true, true, true, 1}
		kinds = []connKind{k, {false, false, true, 1}, k}
	default:
		kinds = []connKind{{true, false, true, 1}, {false, true, true, 9}, {true, true, true, 1}}
	}
	conns := make([]*c19Conn, 3)
	errs := make([]error, 6)
	for i := range conns {
		i := i
		conns[i] = newC19Conn(kinds[i])
		hookTransport(l, conns[i].nc, fmt.Sprintf("c%d", i))
		cc := conns[i]
		s.Go(fmt.Sprintf("S%d", i), func() {
			errs[2*i] = l.call("WritePreparedMessage", func() error { return cc.c.WritePreparedMessage(pm) })
			errs[2*i+1] = l.call("WritePreparedMessage#2", func() error { return cc.c.WritePreparedMessage(pm) })
		})
	}
	s.Run()
	for _, t := range s.Trace {
		x.Logf("schedule: %s", t)
	}
	x.NonTrivial()
	x.Obs("errs=%v switches=%d", errs, s.Switches)
	x.Check(s.Deadlock == "", "C19:concurrent-deadlock", "%s", s.Deadlock)
	for i, cc := range conns {
		for j := 0; j < 2; j++ {
			x.Check(errs[2*i+j] == nil, "C19:concurrent-send-failed", "concurrent WritePreparedMessage on %s: %v", cc.kind, errs[2*i+j])
		}
		d, err := wsref.DecodeStrict(cc.nc.Out, wsref.StrictOpts{Sender: RoleOf(cc.kind.server), Deflate: cc.kind.negotiated})
		x.Check(err == nil && len(d.Messages) == 2, "C19:concurrent-malformed", "connection %d (%s): %v, %d messages", i, cc.kind, err, len(d.Messages))
		for _, m := range d.Messages {
			want := cc.kind.negotiated && cc.kind.wcomp
			x.Check(m.Type == websocket.BinaryMessage && bytes.Equal(m.Payload, payload) && m.Compressed == want, "C19:concurrent-payload", "connection %d (%s): message type %d compressed=%v payload %s", i, cc.kind, m.Type, m.Compressed, short(m.Payload))
		}
	}
}
