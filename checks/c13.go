//go:build verif

package checks

import (
	"fmt"
	"net/http"
	"net/url"
	"strings"
	"time"

	"github.com/gorilla/websocket"
	"verif.local/engine/explore"
	"verif.local/ref/hsref"
	"verif.local/ref/netsim"
)

func init() {
	Register(&Check{
		ID:          "C13",
		Technique:   "complete enumeration of (Host, Origin) pairs assembled from scheme x userinfo x host edits x port x suffix against the real Upgrader with no CheckOrigin; oracle = RFC 3986 appendix-B authority extraction + A-Z folding",
		Rule:        "cases = {8 Host values} x {9 scheme spellings} x {5 userinfo forms} x {all one-character substitutions/insertions/deletions of the host over a small alphabet, case variants, added/removed labels, prefix/suffix look-alikes, U+212A/U+017F/U+0131/full-width look-alikes, percent-escaped spellings, other IP literals} x {8 port forms incl. the default ports 80/443} x {9 suffixes incl. the Host placed after a scheme-looking prefix at the tail} + junk origins; complete product (free dimensions). non-trivial = Origin present and differs from the plain same-origin form; distinct by observation hash",
		Assumptions: []string{"several Origin header lines are a don't-care", "Host values are ASCII (what net/http admits)"},
		Budget:      map[string]time.Duration{"quick": 100 * time.Second, "thorough": 15 * time.Minute},
		Bound:       map[string]string{"quick": "complete product with edits at every position over alphabet {a,.,-,:,@,/,%}", "thorough": "same with a larger edit alphabet (adds 0,Z,[,],\\,?,#,space)"},
		Scenarios:   c13Scenarios,
	})
}

var c13Hosts = []string{"example.org", "Example.ORG", "example.org:8080", "a.b.example.org", "127.0.0.1:80", "[::1]:8080", "k.example", "s.example"}

func splitHostPort(h string) (host, port string) {
	if i := strings.LastIndex(h, ":"); i > strings.LastIndex(h, "]") {
		return h[:i], h[i+1:]
	}
	return h, ""
}

func hostEdits(host string, alphabet string) []string {
	seen := map[string]bool{}
	var out []string
	add := func(s string) {
		if !seen[s] {
			seen[s] = true
			out = append(out, s)
		}
	}
	add(host)
	add(strings.ToUpper(host))
	add(strings.ToLower(host))
	if len(host) > 1 {
		add(strings.ToUpper(host[:1]) + host[1:])
	}
	for i := 0; i <= len(host); i++ {
		for _, c := range alphabet {
			add(host[:i] + string(c) + host[i:]) // insertion
			if i < len(host) {
				add(host[:i] + string(c) + host[i+1:]) // substitution
			}
		}
		if i < len(host) {
			add(host[:i] + host[i+1:]) // deletion
		}
	}
	add("evil." + host)
	add(host + ".evil.com")
	add("evil" + host)
	add(host + "evil")
	add(host + ".")
	if i := strings.Index(host, "."); i >= 0 {
		add(host[i+1:])
	}
	// non-ASCII look-alikes
	for _, r := range [][2]string{{"k", "K"}, {"K", "K"}, {"s", "ſ"}, {"S", "ſ"}, {"i", "ı"}, {"e", "ｅ"}, {"o", "ο"}, {"a", "а"}} {
		if strings.Contains(host, r[0]) {
			add(strings.Replace(host, r[0], r[1], 1))
		}
	}
	// percent-encoded spellings
	if len(host) > 0 {
		add(fmt.Sprintf("%%%02x", host[0]) + host[1:])
		add(host[:len(host)-1] + fmt.Sprintf("%%%02X", host[len(host)-1]))
		add(strings.ReplaceAll(host, ".", "%2e"))
	}
	for _, ip := range []string{"127.0.0.1", "127.1", "[::1]", "[::ffff:127.0.0.1]", "0x7f.0.0.1", "localhost"} {
		add(ip)
	}
	add(host + "\x00")
	add(host + "\xff")
	add("")
	return out
}

var c13Schemes = []string{"http://", "https://", "ws://", "HTTP://", "//", "", "junk:", "1http://", "x://"}
var c13User = []string{"", "user@", "%s@", "user:%s@", "%s:pw@"}
var c13Suffix = []string{"", "/", "/%s", "?%s", "#%s", "/@%s", "/http://%s", "?next=https://%s", "#://%s"}
var c13Junk = []string{"null", "", "//", "://", "http://", "http:", "http:///", "\x00", "\xff\xfe", "http://[", "http://]", "about:blank", "file:///etc/passwd", "http://%zz", " http://%s", "http://%s ", "\thttp://%s",
	"http://evil.example\\@%s", "http://evil.example\\.%s", "http:%s", "http:/%s", "http:\\\\%s", "%s", "//%s@evil.example", "http://%s\\@evil.example", "http://evil.example#@%s", "http://evil.example?@%s", "javascript://%s/%%0aalert(1)"}

func c13Scenarios(tier string) []*explore.Scenario {
	var scs []*explore.Scenario
	alphabet := "a.-:@/%"
	if tier == "thorough" {
		alphabet = "a.-:@/%0Z[]\\?# "
	}
	for _, h := range c13Hosts {
		for si := range c13Schemes {
			h, si := h, si
			scs = append(scs, &explore.Scenario{Name: fmt.Sprintf("c13/host=%s/scheme=%d", h, si), Bound: 0, Body: func(x *explore.Ctx) { c13Body(x, h, si, alphabet) }})
		}
		h := h
		scs = append(scs, &explore.Scenario{Name: fmt.Sprintf("c13/host=%s/junk", h), Bound: 0, Body: func(x *explore.Ctx) {
			j := c13Junk[x.Pick(len(c13Junk), "junk")]
			if strings.Contains(j, "%s") {
				j = fmt.Sprintf(j, h)
			}
			c13Judge(x, h, j, true, false)
		}})
		scs = append(scs, &explore.Scenario{Name: fmt.Sprintf("c13/host=%s/no-origin", h), Bound: 0, Body: func(x *explore.Ctx) { c13Judge(x, h, "", false, false) }})
		scs = append(scs, &explore.Scenario{Name: fmt.Sprintf("c13/host=%s/decoys", h), Bound: 0, Body: func(x *explore.Ctx) { c13Decoys(x, h) }})
	}
	return scs
}

var c13EditCache = map[string][]string{}

func c13Body(x *explore.Ctx, reqHost string, si int, alphabet string) {
	hh, hp := splitHostPort(reqHost)
	edits, ok := c13EditCache[reqHost+alphabet]
	if !ok {
		edits = hostEdits(hh, alphabet)
		c13EditCache[reqHost+alphabet] = edits
	}
	user := c13User[x.Pick(len(c13User), "userinfo")]
	if strings.Contains(user, "%s") {
		user = fmt.Sprintf(user, reqHost)
	}
	oh := edits[x.Pick(len(edits), "host-edit")]
	var port string
	switch x.Pick(8, "port") {
	case 0:
		if hp != "" {
			port = ":" + hp
		}
	case 1:
		port = ""
	case 2:
		port = ":81"
	case 3:
		port = ":"
	case 4:
		port = ":" + hp + "0"
	case 5:
		port = ":80" // default ports are not "normalised away": Host has no port (or another one)
	case 6:
		port = ":443"
	case 7:
		port = ":0"
	}
	suf := c13Suffix[x.Pick(len(c13Suffix), "suffix")]
	if strings.Contains(suf, "%s") {
		suf = fmt.Sprintf(suf, reqHost)
	}
	origin := c13Schemes[si] + user + oh + port + suf
	plain := si <= 2 && user == "" && hsref.FoldASCII(oh) == hsref.FoldASCII(hh) && (port == "" && hp == "" || hp != "" && port == ":"+hp) && suf == ""
	c13Judge(x, reqHost, origin, true, plain)
}

func c13Judge(x *explore.Ctx, reqHost, origin string, hasOrigin, plainSame bool) {
	hdr := http.Header{"Connection": {"Upgrade"}, "Upgrade": {"websocket"}, "Sec-Websocket-Version": {"13"}, "Sec-Websocket-Key": {b64n(16)}}
	if hasOrigin {
		hdr["Origin"] = []string{origin}
	}
	req := &http.Request{Method: "GET", Header: hdr, Host: reqHost, Proto: "HTTP/1.1", ProtoMajor: 1, ProtoMinor: 1}
	nc := netsim.NewConn(nil)
	w := newFakeRW(nc, 0, nil)
	u := &websocket.Upgrader{}
	conn, err := u.Upgrade(w, req, nil)
	accepted := conn != nil
	if hasOrigin && !plainSame {
		x.NonTrivial()
	}
	auth, hasAuth := hsref.Authority(origin)
	equal := hasAuth && hsref.FoldASCII(auth) == hsref.FoldASCII(reqHost)
	x.Obs("host=%q origin=%q accepted=%v equal=%v status=%d", reqHost, origin, accepted, equal, w.Status)
	if !hasOrigin {
		x.Check(accepted, "C13:no-origin-rejected", "request without Origin rejected: %v", err)
		return
	}
	if accepted {
		x.Check(equal, "C13:foreign-origin-accepted", "Origin %q accepted for Host %q (authority %q)", origin, reqHost, auth)
	} else {
		x.Check(w.Status == 403, "C13:reject-status", "Origin %q for Host %q rejected with status %d, want 403", origin, reqHost, w.Status)
		x.Check(w.Hijacks == 0 && len(nc.Out) == 0, "C13:reject-hijacked", "rejected origin but the connection was hijacked / written to")
	}
	if plainSame {
		x.Check(accepted, "C13:same-origin-rejected", "well-formed same-origin request rejected: Origin %q Host %q: %v", origin, reqHost, err)
	}
}

// c13Decoys: a foreign Origin together with other places a sloppy check might look at.
func c13Decoys(x *explore.Ctx, reqHost string) {
	evil := "http://evil.example.org"
	hdr := http.Header{"Connection": {"Upgrade"}, "Upgrade": {"websocket"}, "Sec-Websocket-Version": {"13"}, "Sec-Websocket-Key": {b64n(16)}}
	req := &http.Request{Method: "GET", Header: hdr, Host: reqHost, Proto: "HTTP/1.1", ProtoMajor: 1, ProtoMinor: 1}
	switch x.Pick(6, "decoy") {
	case 0:
		hdr["Origin"] = []string{evil, "http://other.example.net"} // two lines, both foreign
	case 1:
		hdr["Origin"] = []string{evil}
		hdr["X-Forwarded-Host"] = []string{"evil.example.org"}
	case 2:
		hdr["Origin"] = []string{evil}
		hdr["Referer"] = []string{"http://" + reqHost + "/page"}
	case 3:
		hdr["Origin"] = []string{evil}
		req.URL = &url.URL{Scheme: "http", Host: "evil.example.org", Path: "/ws"}
	case 4:
		hdr["Origin"] = []string{evil}
		hdr["Forwarded"] = []string{"host=evil.example.org"}
	case 5:
		hdr["Origin"] = []string{evil}
		hdr["Sec-Websocket-Origin"] = []string{"http://" + reqHost}
	}
	nc := netsim.NewConn(nil)
	w := newFakeRW(nc, 0, nil)
	u := &websocket.Upgrader{}
	conn, _ := u.Upgrade(w, req, nil)
	x.NonTrivial()
	x.Obs("host=%q hdr=%v accepted=%v status=%d", reqHost, hdr["Origin"], conn != nil, w.Status)
	x.Check(conn == nil, "C13:foreign-origin-accepted-with-decoy", "foreign Origin %q accepted for Host %q (other headers: %v)", hdr["Origin"], reqHost, hdr)
	x.Check(w.Status == 403, "C13:reject-status", "foreign origin rejected with status %d, want 403", w.Status)
}
