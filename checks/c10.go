//go:build verif

package checks

import (
	"fmt"
	"io"
	"time"

	"github.com/gorilla/websocket"
	"verif.local/engine/explore"
	"verif.local/ref/netsim"
	"verif.local/ref/wsref"
)

func init() {
	Register(&Check{
		ID:          "C10",
		Technique:   "fault enumeration inside the explorer: every transport operation (SetWriteDeadline, Write) of every explored write program is a choice point with answers {ok, error, timeout, short write, zero write}; invalid requests at every position; deadlines compared at every transport Write",
		Rule:        "same write-program space as C01 (core product complete) with a fault choice at every transport operation index (one fault per execution: after it the property demands fail-stop), an invalid-request choice (13 kinds x 3 positions) and deadline choices; non-trivial = at least one transport operation and a non-default choice; distinct by observation hash",
		Assumptions: []string{"a single fault per execution (later faults cannot be observed by a fail-stopped connection)", "wire prefix judged by ref/wsref in partial mode"},
		Budget:      map[string]time.Duration{"quick": 100 * time.Second, "thorough": 40 * time.Minute},
		Bound:       map[string]string{"quick": "deviations <= 2 (a fault is one deviation), <= 2 messages", "thorough": "deviations <= 2 over the whole product (3 messages, all boundary sizes), <= 3 on a sub-lattice (B in {125,300}, every fourth size)"},
		Scenarios:   func(tier string) []*explore.Scenario { return wScenarios("c10", tier, c10Body) },
	})
}

type faultState struct {
	injected  bool
	at        int // op index
	kind      netsim.Fault
	opKind    netsim.OpKind
	callIndex int
	noFaults  bool
}

var c10Faults = []netsim.Fault{netsim.OK, netsim.FailErr, netsim.FailTimeout, netsim.FailShort, netsim.FailShortZero, netsim.FailShortTimeout}

type invalidReq struct {
	name string
	mid  bool // may be issued while a writer is open
	do   func(c *websocket.Conn) error
}

var invalidReqs = []invalidReq{
	{"WriteControl(text)", true, func(c *websocket.Conn) error { return c.WriteControl(websocket.TextMessage, []byte("x"), time.Time{}) }},
	{"WriteControl(ping,126)", true, func(c *websocket.Conn) error {
		return c.WriteControl(websocket.PingMessage, make([]byte, 126), time.Time{})
	}},
	{"WriteControl(close,126)", true, func(c *websocket.Conn) error {
		return c.WriteControl(websocket.CloseMessage, make([]byte, 126), time.Time{})
	}},
	{"WriteMessage(0)", false, func(c *websocket.Conn) error { return c.WriteMessage(0, []byte("x")) }},
	{"WriteMessage(3)", false, func(c *websocket.Conn) error { return c.WriteMessage(3, []byte("x")) }},
	{"WriteMessage(7)", false, func(c *websocket.Conn) error { return c.WriteMessage(7, nil) }},
	{"WriteMessage(11)", false, func(c *websocket.Conn) error { return c.WriteMessage(11, []byte("x")) }},
	{"WriteMessage(-1)", false, func(c *websocket.Conn) error { return c.WriteMessage(-1, []byte("x")) }},
	{"NextWriter(3)", false, func(c *websocket.Conn) error { _, err := c.NextWriter(3); return err }},
	{"WriteMessage(ping,126)", false, func(c *websocket.Conn) error { return c.WriteMessage(websocket.PingMessage, make([]byte, 126)) }},
	{"WriteMessage(pong,200)", false, func(c *websocket.Conn) error { return c.WriteMessage(websocket.PongMessage, make([]byte, 200)) }},
	{"NextWriter(ping)+Write(126)+Close", false, func(c *websocket.Conn) error {
		w, err := c.NextWriter(websocket.PingMessage)
		if err != nil {
			return errUnexpectedValid{err}
		}
		_, err1 := w.Write(make([]byte, 126))
		err2 := w.Close()
		if err1 != nil {
			return err1
		}
		return err2
	}},
	{"NextWriter(pong)+Write(100)+Write(100)+Close", false, func(c *websocket.Conn) error {
		w, err := c.NextWriter(websocket.PongMessage)
		if err != nil {
			return errUnexpectedValid{err}
		}
		_, err1 := w.Write(make([]byte, 100))
		_, err2 := w.Write(make([]byte, 100))
		err3 := w.Close()
		if err1 != nil {
			return err1
		}
		if err2 != nil {
			return err2
		}
		return err3
	}},
	{"NewPreparedMessage(ping,126)", true, func(c *websocket.Conn) error {
		_, err := websocket.NewPreparedMessage(websocket.PingMessage, make([]byte, 126))
		return err
	}},
}

type errUnexpectedValid struct{ error }

func c10Body(x *explore.Ctx, cfg WConfig, prog int, tier string) {
	cfg.Lean = true
	faultBody(x, cfg, prog, tier, "C10")
}

func c20Body(x *explore.Ctx, cfg WConfig, prog int, tier string) {
	cfg.ForcePool = true
	cfg.Lean = true
	faultBody(x, cfg, prog, tier, "C20")
}

// faultBody is shared by C10 (fail-stop oracle) and C20 (pool oracle).
func faultBody(x *explore.Ctx, cfg WConfig, prog int, tier string, id string) {
	fs := &faultState{}
	key := func(what string) string {
		return fmt.Sprintf("%s:%s:writer=%s:deflate=%v", id, what, roleName(cfg.Server), cfg.Compress)
	}
	t1 := time.Date(2100, 1, 1, 0, 0, 0, 0, time.UTC)
	t2 := t1.Add(time.Hour)
	var env *WEnv
	var curDL time.Time // value given to Conn.SetWriteDeadline before the first call
	type dlChange struct {
		call int // index of the first API call issued after the change
		dl   time.Time
	}
	var dlChanges []dlChange
	invalid := -1
	invalidPos := ""
	issueInvalid := func(pos string) {
		if invalid < 0 || invalidPos != pos || env.Failed {
			return
		}
		ir := invalidReqs[invalid]
		w0, before := len(env.NC.Writes), len(env.Sent)
		hadOpen := env.open != nil
		err := env.callQuiet("invalid:"+ir.name, func() error { return ir.do(env.C) }).Err
		if _, bad := err.(errUnexpectedValid); bad {
			x.Failf(key("valid-part-of-invalid-request-rejected"), "%s: %v", ir.name, err)
		}
		x.Check(err != nil, key("invalid-accepted:"+ir.name), "invalid request %s returned nil", ir.name)
		if hadOpen && !ir.mid {
			// documented: the previous writer is closed implicitly
			env.finishOpen(&APICall{})
		}
		_ = before
		if !hadOpen {
			x.Check(len(env.NC.Writes) == w0, key("invalid-wrote:"+ir.name), "invalid request %s wrote %d times to the transport", ir.name, len(env.NC.Writes)-w0)
		}
	}
	onErr := func(e *WEnv, ac *APICall) {
		if !fs.injected {
			x.Failf(key("error-without-fault:"+apiKey(ac.Name)), "%s returned %v although no transport fault was injected (%s)", ac.Name, ac.Err, e.Cfg)
		}
	}
	// ---- hooks are installed by wrapping writePhase's environment creation: we need the
	// netsim.Conn before the first call, so use the OnEnv callback.
	wpOnEnv = func(e *WEnv) {
		env = e
		e.NC.Decide = func(c *netsim.Conn, kind netsim.OpKind, index int) netsim.Fault {
			if fs.injected || fs.noFaults || (kind != netsim.OpWrite && kind != netsim.OpSetWriteDeadline) {
				return netsim.OK
			}
			f := c10Faults[x.Choose(len(c10Faults), fmt.Sprintf("fault@%s", kind))]
			if f != netsim.OK {
				if kind == netsim.OpSetWriteDeadline && (f == netsim.FailShort || f == netsim.FailShortZero || f == netsim.FailShortTimeout) {
					f = netsim.FailErr
				}
				fs.injected, fs.at, fs.kind, fs.opKind, fs.callIndex = true, index, f, kind, len(e.Calls)
				x.Obs("FAULT %v at op %d (%v)", f, index, kind)
			}
			return f
		}
		// deadlines
		switch x.Choose(3, "SetWriteDeadline") {
		case 1:
			e.C.SetWriteDeadline(t1)
			curDL = t1
		case 2:
			e.C.SetWriteDeadline(t2)
			curDL = t2
		}
		if x.Choose(2, "WriteControl-deadline") == 1 {
			e.CtlDL = t2.Add(time.Hour)
		}
		if v := x.Choose(1+len(invalidReqs)*3, "invalid-request"); v > 0 {
			invalid = (v - 1) % len(invalidReqs)
			fs.noFaults = true // invalid requests are judged on fault-free runs
			invalidPos = []string{"before", "after-nextwriter", "after"}[(v-1)/len(invalidReqs)]
			if invalidPos == "after-nextwriter" && !invalidReqs[invalid].mid {
				invalidPos = "after" // would implicitly close the open writer; issue it between messages instead
			}
		}
		// the application changes the write deadline while a message writer is open: frames written
		// from then on (the final frame written by Close included) go out under the new deadline
		midDL := x.Choose(4, "SetWriteDeadline-while-writer-open")
		e.Between = func(pos string) {
			issueInvalid(pos)
			if midDL > 0 && pos == []string{"", "after-nextwriter", "between-writes", "before-close"}[midDL] && !env.Failed {
				t3 := t2.Add(time.Duration(len(dlChanges)+1) * time.Minute)
				e.C.SetWriteDeadline(t3)
				dlChanges = append(dlChanges, dlChange{len(e.Calls), t3})
				x.Obs("SetWriteDeadline(+%dm) before call %d (%s)", len(dlChanges), len(e.Calls), pos)
			}
		}
		issueInvalid("before")
		if id == "C20" {
			// a close (or any fatal write error) recorded by another path while a message writer
			// is still open: the next message must still end the abandoned one and give its
			// buffer back
			e.BeforeFinish = func() {
				if e.open == nil || e.Failed || x.Choose(2, "close-sent-while-writer-open") == 0 {
					return
				}
				zero := time.Time{}
				e.callQuiet("epilogue:WriteControl(close)", func() error {
					return e.C.WriteControl(websocket.CloseMessage, wsref.CloseBody(1000, ""), zero)
				}).CtlDL = &zero
				e.callQuiet("epilogue:NextWriter", func() error { _, err := e.C.NextWriter(websocket.BinaryMessage); return err })
				e.open, e.openMsg = nil, nil
				e.Failed = true
			}
		}
	}
	defer func() { wpOnEnv = nil }()
	e := writePhase(x, cfg, prog, tier, nil, onErr)
	issueInvalid("after")
	x.NonTrivial()

	// ---- deadline oracle: every transport Write happened under the expected deadline
	for ci, ac := range e.Calls {
		want := curDL
		for _, ch := range dlChanges {
			if ch.call <= ci {
				want = ch.dl
			}
		}
		if ac.CtlDL != nil {
			want = *ac.CtlDL
		}
		for oi := ac.Op0; oi < ac.Op1; oi++ {
			op := e.NC.Ops[oi]
			if op.Kind == netsim.OpWrite {
				x.Check(op.WDL.Equal(want), key("deadline"), "call %d (%s): transport Write issued under write deadline %v, want %v", ci, ac.Name, op.WDL, want)
			}
		}
	}
	if id == "C20" {
		if fs.injected && e.Failed {
			// after a transport fault the application tries once more: this must end a writer
			// that is still open (implicit close) and leave nothing checked out
			e.callQuiet("epilogue:NextWriter", func() error { _, err := e.C.NextWriter(websocket.BinaryMessage); return err })
		}
		c20Oracle(x, e, fs, key)
	}
	if !fs.injected {
		// no fault: invalid requests must not have disturbed anything
		if e.Failed {
			return
		}
		judgeWire(x, e, id)
		return
	}
	if id != "C10" {
		return
	}
	// ---- fail-stop oracle
	_, derr := wsref.DecodeStrict(e.NC.Out, wsref.StrictOpts{Sender: RoleOf(cfg.Server), Deflate: cfg.Compress, AllowPartial: true})
	x.Check(derr == nil, key("prefix-malformed"), "bytes written before the fault are not whole frames + at most one incomplete frame: %v", derr)
	for _, op := range e.NC.Ops[fs.at+1:] {
		x.Check(op.Kind != netsim.OpWrite, key("write-after-fault"), "transport Write (op %d, %d bytes) after the fault at op %d", op.Index, op.N, fs.at)
	}
	// the call during which the fault happened, if it completes a message, must fail
	if fs.callIndex < len(e.Calls) {
		ac := e.Calls[fs.callIndex]
		if completes(ac.Name) {
			x.Check(ac.Err != nil, key("fault-swallowed:"+apiKey(ac.Name)), "%s returned nil although the transport failed during it (fault %v at op %d)", ac.Name, fs.kind, fs.at)
		}
	}
	// every later message-level write fails
	nW := len(e.NC.Writes)
	later := []struct {
		name string
		f    func() error
	}{
		{"Close(open writer)", func() error {
			if e.open != nil {
				return e.open.Close()
			}
			return io.ErrClosedPipe
		}},
		{"WriteMessage", func() error { return e.C.WriteMessage(websocket.TextMessage, []byte("later")) }},
		{"NextWriter", func() error {
			w, err := e.C.NextWriter(websocket.BinaryMessage)
			if err == nil {
				w.Write([]byte("x"))
				return w.Close()
			}
			return err
		}},
		{"WriteControl", func() error { return e.C.WriteControl(websocket.PingMessage, []byte("l"), time.Time{}) }},
		{"WriteJSON", func() error { return e.C.WriteJSON("later") }},
		{"WritePreparedMessage", func() error {
			pm, _ := websocket.NewPreparedMessage(websocket.TextMessage, []byte("later"))
			return e.C.WritePreparedMessage(pm)
		}},
	}
	for _, l := range later {
		err := l.f()
		x.Obs("later %s -> %v", l.name, err != nil)
		x.Check(err != nil, key("later-write-succeeds:"+l.name), "%s after a transport fault (%v at op %d) returned nil", l.name, fs.kind, fs.at)
	}
	x.Check(len(e.NC.Writes) == nW, key("write-after-fault"), "later API calls wrote %d more times to the transport", len(e.NC.Writes)-nW)
	// a failed connection must not poison anything shared: a fresh, healthy connection of the
	// same configuration created afterwards writes a flawless message
	cfg2 := cfg
	cfg2.SizeIdx, cfg2.ForcePool = 0, false
	e2 := NewWEnv(x, cfg2, false)
	e2.Name = "fresh"
	e2.OnErr = func(ac *APICall) {
		x.Failf(key("fresh-connection-fails"), "a fresh connection created after another connection's transport fault: %s returned %v", ac.Name, ac.Err)
	}
	e2.WriteMessageProg(PWriteMessage, websocket.BinaryMessage, 300, 3, func(int, string) int { return 0 }, func(int, string) int { return 0 }, nil)
	e2.WriteMessageProg(PNextWriterAll, websocket.TextMessage, 40, 4, func(int, string) int { return 0 }, func(int, string) int { return 0 }, nil)
	judgeWire(x, e2, "C10")
}

func completes(name string) bool {
	switch apiKey(name) {
	case "WriteMessage", "Close", "WriteJSON", "WritePreparedMessage", "WriteControl":
		return true
	}
	return false
}
