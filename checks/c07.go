//go:build verif

package checks

import (
	"bytes"
	"context"
	"fmt"
	"io"
	"net"
	"net/http"
	"net/url"
	"runtime"
	"strings"
	"time"

	"github.com/gorilla/websocket"
	"verif.local/engine/explore"
	"verif.local/ref/hsref"
	"verif.local/ref/netsim"
	"verif.local/ref/wsref"
)

func init() {
	Register(&Check{
		ID:          "C07",
		Technique:   "small-scope exhaustive enumeration of untrusted input on the real code: every byte string up to a length as the start of a frame stream (x tails x role x compression), structured hostile frame sequences, every prefix and every grammar variant of Dial / CONNECT replies, every short string over a separator alphabet as request header values; oracle = no panic, every call returns, progress per call, allocation proportional to bytes received",
		Rule:        "families: bytes (all byte strings of length <= 2 (quick) / <= 3 (thorough) x 6 tails x role x deflate), frames (<= 3 frames over the C04 header alphabet with payload fully / partly / not supplied, deflate-garbage payloads), dialreply (status-line x header grammar, every prefix of 12 complete replies), connectreply (same for CONNECT), headers (all strings of length <= 6 (quick) / <= 7 (thorough) over {a,SP,',',';','=','\"','\\\\',TAB} in Connection/Upgrade/Version/Protocol/Extensions, <= 4/5 over a wider alphabet in Origin/Host/Key). Complete products. non-trivial = input non-empty; distinct by observation hash",
		Assumptions: []string{"inputs longer than the bounds that share no structure with the enumerated ones are outside the claim (coverage-guided fuzzing is a different technique family)", "the documented panic after 1000 reads on a failed connection is excluded by never issuing that many reads", "allocation is runtime.MemStats.TotalAlloc measured around the calls in a single goroutine: bound 1 MiB + 1100 x bytes fed"},
		Budget:      map[string]time.Duration{"quick": 110 * time.Second, "thorough": 28 * time.Minute},
		Bound:       map[string]string{"quick": "byte strings <= 2, header strings <= 6 / <= 4", "thorough": "byte strings <= 3, header strings <= 7 / <= 5"},
		Scenarios:   c07Scenarios,
	})
}

var c07Tails = [][]byte{nil, make([]byte, 14), nil, bytes.Repeat([]byte{0xff}, 14), nil, {0x82, 0xff, 0, 0, 0}}

func c07Tail(i int, readerIsServer bool) []byte {
	switch i {
	case 2:
		return wsref.Encode(wsref.Frame{Fin: true, Opcode: wsref.OpText, Masked: readerIsServer, Key: maskKeys[3], Payload: []byte("ok")})
	case 4:
		return wsref.Encode(wsref.Frame{Fin: true, Opcode: wsref.OpPing, Masked: readerIsServer, Key: maskKeys[3], Payload: []byte("p")})
	}
	return c07Tails[i]
}

func c07Scenarios(tier string) []*explore.Scenario {
	var scs []*explore.Scenario
	maxLen := 2
	ntails := len(c07Tails)
	if tier == "thorough" {
		maxLen = 3
		ntails = 2
	}
	for _, readerIsServer := range []bool{true, false} {
		for _, deflate := range []bool{false, true} {
			for ti := 0; ti < ntails; ti++ {
				for b0 := 0; b0 <= 256; b0++ {
					readerIsServer, deflate, ti, b0 := readerIsServer, deflate, ti, b0
					if tier == "quick" && b0 != 0 {
						// quick: one scenario enumerates both bytes
						break
					}
					scs = append(scs, &explore.Scenario{Name: fmt.Sprintf("c07/bytes/reader=%s/deflate=%v/tail=%d/b0=%d", roleName(readerIsServer), deflate, ti, b0), Bound: 0,
						Body: func(x *explore.Ctx) { c07Bytes(x, readerIsServer, deflate, ti, maxLen, b0, tier) }})
				}
			}
			readerIsServer, deflate := readerIsServer, deflate
			for op := 0; op < 16; op++ {
				op := op
				scs = append(scs, &explore.Scenario{Name: fmt.Sprintf("c07/frames/reader=%s/deflate=%v/op=%d", roleName(readerIsServer), deflate, op), Bound: 1,
					Body: func(x *explore.Ctx) { c07Frames(x, readerIsServer, deflate, op) }})
			}
		}
	}
	for _, readerIsServer := range []bool{true, false} {
		for pat := 0; pat < 5; pat++ {
			readerIsServer, pat := readerIsServer, pat
			scs = append(scs, &explore.Scenario{Name: fmt.Sprintf("c07/long-runs/reader=%s/pattern=%d", roleName(readerIsServer), pat), Bound: 0, Body: func(x *explore.Ctx) { c07LongRun(x, readerIsServer, pat, tier) }})
		}
	}
	for ri := range c07Replies {
		ri := ri
		scs = append(scs, &explore.Scenario{Name: fmt.Sprintf("c07/dialreply/prefix/%d", ri), Bound: 0, Body: func(x *explore.Ctx) { c07DialReply(x, ri, false, true) }})
		scs = append(scs, &explore.Scenario{Name: fmt.Sprintf("c07/connectreply/prefix/%d", ri), Bound: 0, Body: func(x *explore.Ctx) { c07DialReply(x, ri, true, true) }})
	}
	scs = append(scs, &explore.Scenario{Name: "c07/dialreply/grammar", Bound: 0, Body: func(x *explore.Ctx) { c07DialReply(x, 0, false, false) }})
	scs = append(scs, &explore.Scenario{Name: "c07/connectreply/grammar", Bound: 0, Body: func(x *explore.Ctx) { c07DialReply(x, 0, true, false) }})
	hl, hl2 := 6, 4
	if tier == "thorough" {
		hl, hl2 = 7, 5
	}
	for a := 0; a < len(c07Alpha1); a++ {
		for b := 0; b <= len(c07Alpha1); b++ {
			a, b := a, b
			scs = append(scs, &explore.Scenario{Name: fmt.Sprintf("c07/headers/lists/%d-%d", a, b), Bound: 0, Body: func(x *explore.Ctx) { c07Headers(x, c07Alpha1, hl, a, b, false) }})
		}
	}
	for a := 0; a < len(c07Alpha2); a++ {
		a := a
		scs = append(scs, &explore.Scenario{Name: fmt.Sprintf("c07/headers/origin-host-key/%d", a), Bound: 0, Body: func(x *explore.Ctx) { c07Headers(x, c07Alpha2, hl2, a, -1, true) }})
	}
	return scs
}

// memGuard measures TotalAlloc around f.
func memGuard(f func()) uint64 {
	var m0, m1 runtime.MemStats
	runtime.ReadMemStats(&m0)
	f()
	runtime.ReadMemStats(&m1)
	return m1.TotalAlloc - m0.TotalAlloc
}

// hostileRead feeds stream to a Conn and runs the ReadMessage loop with a progress/step oracle.
func hostileRead(x *explore.Ctx, stream []byte, readerIsServer, deflate bool, measure bool, key string) {
	hostileReadProg(x, stream, readerIsServer, deflate, measure, key, false)
}

func hostileReadProg(x *explore.Ctx, stream []byte, readerIsServer, deflate bool, measure bool, key string, useReadMessage bool) {
	nc := netsim.NewConn(stream)
	nc.NoReadLog = true
	var calls, delivered int
	var lastErr error
	body := func() {
		c := websocket.VerifNewConn(nc, readerIsServer, 0, 0, nil, deflate)
		for calls = 0; calls < len(stream)+3; calls++ {
			if useReadMessage {
				_, p, err := c.ReadMessage()
				delivered += len(p)
				if err != nil {
					// connection-level or message-level? ask once more
					if _, r2, err2 := c.NextReader(); err2 != nil {
						lastErr = err2
						return
					} else {
						p2, _ := io.ReadAll(r2)
						delivered += len(p2)
					}
				}
				continue
			}
			_, r, err := c.NextReader()
			if err != nil {
				lastErr = err
				return
			}
			// a message-level error (e.g. corrupt deflate data) does not end the connection
			p, _ := io.ReadAll(r)
			delivered += len(p)
		}
	}
	var alloc uint64
	if measure {
		alloc = memGuard(body)
	} else {
		body()
	}
	x.Obs("calls=%d delivered=%d err=%v", calls, delivered, lastErr != nil)
	x.Check(lastErr != nil, key+":no-progress", "read loop needed more than %d calls for %d input bytes (% x)", calls, len(stream), clipb(stream))
	if measure {
		limit := uint64(1<<20 + 1100*len(stream))
		x.Check(alloc <= limit, key+":allocation", "%d bytes allocated for %d input bytes (% x)", alloc, len(stream), clipb(stream))
	}
	x.Check(delivered <= 1100*len(stream)+16, key+":delivered-more-than-received", "%d payload bytes delivered from %d input bytes", delivered, len(stream))
}

func clipb(b []byte) []byte {
	if len(b) > 32 {
		return b[:32]
	}
	return b
}

func c07Bytes(x *explore.Ctx, readerIsServer, deflate bool, ti, maxLen, b0 int, tier string) {
	var s []byte
	if tier == "quick" {
		for i := 0; i < maxLen; i++ {
			v := x.Pick(257, fmt.Sprintf("byte%d", i))
			if v == 256 {
				break
			}
			s = append(s, byte(v))
		}
	} else {
		if b0 < 256 {
			s = append(s, byte(b0))
			for i := 1; i < maxLen; i++ {
				v := x.Pick(257, fmt.Sprintf("byte%d", i))
				if v == 256 {
					break
				}
				s = append(s, byte(v))
			}
		}
	}
	if len(s) > 0 {
		x.NonTrivial()
	}
	stream := append(append([]byte{}, s...), c07Tail(ti, readerIsServer)...)
	// allocation is measured on a sub-lattice (every 8th second byte) to keep ReadMemStats cheap
	measure := len(s) < 2 || s[1]%8 == 0
	hostileRead(x, stream, readerIsServer, deflate, measure, fmt.Sprintf("C07:frames:reader=%s:deflate=%v", roleName(readerIsServer), deflate))
}

var c07Garbage = [][]byte{nil, {0}, {1}, {2}, {3}, {5}, {0xff}, {0, 0}, {1, 0}, {2, 0xff}, {3, 0}, {5, 5}, {0xff, 0xff}, {0x00, 0x00, 0xff, 0xff}, {0x01, 0x00, 0x00, 0xff, 0xff}, {0xed, 0xfd}, {0x7c, 0x00}}

func c07Frames(x *explore.Ctx, readerIsServer, deflate bool, op int) {
	// up to 3 frames: first = (op, bits, length class, payload supply), then optional valid/hostile followers
	mk := maskKeys[3]
	var stream []byte
	menu := []wsref.Frame{
		{Fin: true, Opcode: wsref.OpText, Masked: readerIsServer, Key: mk, Payload: []byte("ok")},
		{Opcode: wsref.OpCont, Masked: readerIsServer, Key: mk, Payload: []byte("c")},
		{Fin: true, Opcode: wsref.OpCont, Masked: readerIsServer, Key: mk},
		{Fin: true, Opcode: wsref.OpPing, Masked: readerIsServer, Key: mk, Payload: Pattern(0, 125)},
		{Fin: true, Opcode: wsref.OpClose, Masked: readerIsServer, Key: mk, Payload: []byte{0x03}},
		{Fin: true, Rsv1: true, Opcode: wsref.OpBinary, Masked: readerIsServer, Key: mk, Payload: []byte{0xff, 0xff}},
		{Fin: true, Opcode: wsref.OpBinary, Masked: readerIsServer, Key: mk, LenForm: 64, ClaimLen: 1 << 62},
	}
	useRM := x.Pick(2, "readprog") == 1 // ReadMessage instead of NextReader+ReadAll (single-frame streams only)
	for i := 0; i < 3; i++ {
		if i > 0 && useRM {
			break
		}
		if i > 0 {
			m := x.Pick(len(menu)+1, fmt.Sprintf("f%d.menu", i))
			if m == len(menu) {
				break
			}
			stream = append(stream, wsref.Encode(menu[m])...)
			continue
		}
		o := byte(op)
		bits := x.Pick(32, fmt.Sprintf("f%d.bits", i))
		lc := x.Pick(9, fmt.Sprintf("f%d.len", i))
		supply := x.Pick(3, fmt.Sprintf("f%d.supply", i)) // all, half, none
		f := wsref.Frame{Opcode: o, Fin: bits&1 == 0, Rsv1: bits&2 != 0, Rsv2: bits&4 != 0, Rsv3: bits&8 != 0, Masked: readerIsServer != (bits&16 != 0), Key: mk}
		n := []int{0, 1, 125, 126, 70000, 0, 0, 20000, 20000}[lc]
		switch lc {
		case 5:
			f.LenForm, f.ClaimLen = 64, 1<<63|7
		case 6:
			f.LenForm, f.ClaimLen = 64, 1<<40
		case 7: // a huge claim backed by 20000 real payload bytes
			f.LenForm, f.ClaimLen = 64, 1<<62
		case 8:
			f.LenForm, f.ClaimLen = 64, 1<<28
		}
		f.Payload = Pattern(3, n)
		if f.Rsv1 && deflate {
			g := c07Garbage[x.Choose(len(c07Garbage), fmt.Sprintf("f%d.deflate-garbage", i))]
			if len(g) > 0 {
				f.Payload = append(append([]byte{}, g...), f.Payload...)
				if len(f.Payload) > n && n > 0 {
					f.Payload = f.Payload[:n]
				}
			}
		}
		enc := wsref.Encode(f)
		hdr := len(enc) - len(f.Payload)
		switch supply {
		case 1:
			enc = enc[:hdr+len(f.Payload)/2]
		case 2:
			enc = enc[:hdr]
		}
		stream = append(stream, enc...)
		if supply != 0 {
			break
		}
	}
	x.NonTrivial()
	hostileReadProg(x, stream, readerIsServer, deflate, x.Deviations() == 0, fmt.Sprintf("C07:frameseq:reader=%s:deflate=%v", roleName(readerIsServer), deflate), useRM)
}

var c07Replies = []string{
	"HTTP/1.1 101 Switching Protocols\r\nUpgrade: websocket\r\nConnection: Upgrade\r\nSec-WebSocket-Accept: $A\r\n\r\n",
	"HTTP/1.1 101 Switching Protocols\r\nUpgrade: websocket\r\nConnection: Upgrade\r\nSec-WebSocket-Accept: $A\r\nSec-WebSocket-Extensions: permessage-deflate; server_no_context_takeover; client_no_context_takeover\r\nSec-WebSocket-Protocol: chat\r\n\r\n\x81\x02hi",
	"HTTP/1.1 200 OK\r\nContent-Length: 5\r\n\r\nhello",
	"HTTP/1.1 400 Bad Request\r\nContent-Length: 2000\r\n\r\n" + strings.Repeat("x", 2000),
	"HTTP/1.1 301 Moved\r\nLocation: http://x/\r\nTransfer-Encoding: chunked\r\n\r\n5\r\nhello\r\n0\r\n\r\n",
	"HTTP/1.0 101 X\r\nupgrade: WEBSOCKET\r\nconnection: keep-alive, upgrade\r\nsec-websocket-accept: $A\r\n\r\n",
	"HTTP/1.1 101\r\nUpgrade: websocket\r\nConnection: Upgrade\r\nSec-WebSocket-Accept: $A\r\n\r\n",
	"HTTP/1.1 407\r\n\r\n",
	"HTTP/1.1 407 Proxy Authentication Required\r\nProxy-Authenticate: Basic\r\nContent-Length: 0\r\n\r\n",
	"HTTP/1.1 200\r\n\r\n",
	"HTTP/1.1 101 Switching Protocols\r\nUpgrade: websocket\r\nConnection: Upgrade\r\nSec-WebSocket-Accept: $A\r\nSec-WebSocket-Extensions: permessage-deflate; a=\"\\\"; b=\"x\\\r\n\r\n",
	"HTTP/1.1 502 Bad Gateway\r\nContent-Length: 5\r\n\r\nab",
}

var c07StatusLines = []string{"HTTP/1.1 101 Switching Protocols", "HTTP/1.1 101", "HTTP/1.1 101 ", "HTTP/1.1 200 OK", "HTTP/1.1 200", "HTTP/1.1 200 ", "HTTP/1.1 407", "HTTP/1.1 407 ", "HTTP/1.1 1", "HTTP/1.1 abc", "HTTP/1.1 999 X", "HTTP/1.1", "HTTP/2 101 X", "HTTP/1.1  101  X", "101 X", "", "HTTP/1.1 -1 X", "HTTP/1.1 000 X", "HTTP/1.1 1000 X"}
var c07HdrValues = func() []string {
	alpha := "a ,;=\"\\"
	out := []string{""}
	cur := []string{""}
	for l := 1; l <= 3; l++ {
		var next []string
		for _, p := range cur {
			for _, c := range alpha {
				next = append(next, p+string(c))
			}
		}
		out = append(out, next...)
		cur = next
	}
	return out
}()

func c07DialReply(x *explore.Ctx, ri int, viaProxy, prefixMode bool) {
	var reply string
	if prefixMode {
		full := c07Replies[ri]
		reply = full[:x.Pick(len(full)+1, "prefix-len")]
	} else {
		sl := c07StatusLines[x.Pick(len(c07StatusLines), "status-line")]
		which := x.Pick(5, "header")
		val := c07HdrValues[x.Pick(len(c07HdrValues), "value")]
		h := map[string]string{"Upgrade": "websocket", "Connection": "Upgrade", "Sec-WebSocket-Accept": "$A"}
		extra := ""
		switch which {
		case 0:
			h["Upgrade"] = val
		case 1:
			h["Connection"] = val
		case 2:
			h["Sec-WebSocket-Accept"] = val
		case 3:
			extra = "Sec-WebSocket-Extensions: permessage-deflate" + val + "\r\n"
		case 4:
			extra = "Sec-WebSocket-Protocol: " + val + "\r\nContent-Length: " + val + "\r\n"
		}
		reply = sl + "\r\nUpgrade: " + h["Upgrade"] + "\r\nConnection: " + h["Connection"] + "\r\nSec-WebSocket-Accept: " + h["Sec-WebSocket-Accept"] + "\r\n" + extra + "\r\n"
	}
	nc := netsim.NewConn(nil)
	nc.NoReadLog = true
	stage := 0
	nc.Extra = func(c *netsim.Conn) []byte {
		reqs := bytes.Count(c.Out, []byte("\r\n\r\n"))
		if reqs <= stage {
			return nil
		}
		stage = reqs
		h := hsref.ParseHead(c.Out[bytes.LastIndex(c.Out[:len(c.Out)-4], []byte("\r\n\r\n"))+1:])
		if bytes.Contains(c.Out, []byte("\r\n\r\n")) && reqs == 1 && !viaProxy || reqs == 1 && viaProxy {
			// the reply under test answers the first request (the GET, or the CONNECT)
			key := ""
			if ks := h.Get("Sec-WebSocket-Key"); len(ks) > 0 {
				key = ks[0]
			}
			return []byte(strings.ReplaceAll(reply, "$A", hsref.AcceptKey(key)))
		}
		// behind an accepting proxy: a correct 101
		key := ""
		if ks := h.Get("Sec-WebSocket-Key"); len(ks) > 0 {
			key = ks[0]
		}
		return []byte("HTTP/1.1 101 Switching Protocols\r\nUpgrade: websocket\r\nConnection: Upgrade\r\nSec-WebSocket-Accept: " + hsref.AcceptKey(key) + "\r\n\r\n")
	}
	d := &websocket.Dialer{EnableCompression: true, NetDialContext: func(ctx context.Context, network, addr string) (net.Conn, error) { return nc, nil }}
	if viaProxy {
		pu, _ := url.Parse("http://user:pw@proxy.example:3128")
		d.Proxy = func(*http.Request) (*url.URL, error) { return pu, nil }
	}
	var conn *websocket.Conn
	var err error
	alloc := memGuard(func() { conn, _, err = d.Dial("ws://backend.example/ws", nil) })
	if len(reply) > 0 {
		x.NonTrivial()
	}
	x.Obs("reply=%q -> conn=%v err=%v", clip([]byte(reply)), conn != nil, err != nil)
	key := fmt.Sprintf("C07:dialreply:proxy=%v", viaProxy)
	x.Check((conn == nil) == (err != nil), key+":conn-xor-err", "conn=%v err=%v", conn != nil, err)
	x.Check(alloc <= uint64(1<<20+1100*len(reply)), key+":allocation", "%d bytes allocated for a %d-byte reply", alloc, len(reply))
	if conn != nil {
		// whatever followed the reply is read as frames without panicking
		for i := 0; i < 4; i++ {
			if _, _, err := conn.ReadMessage(); err != nil {
				break
			}
		}
	}
}

var c07Alpha1 = []byte{'a', ' ', ',', ';', '=', '"', '\\', '\t'}
var c07Alpha2 = []byte{'a', ' ', ',', ';', '=', '"', '\\', '\t', 0x80, '%', ':', '/', '@', '[', ']'}

func c07Headers(x *explore.Ctx, alpha []byte, maxLen, a, b int, originMode bool) {
	s := []byte{alpha[a]}
	if b >= 0 {
		if b < len(alpha) {
			s = append(s, alpha[b])
		}
	}
	if b < 0 || b < len(alpha) {
		for len(s) < maxLen {
			v := x.Pick(len(alpha)+1, fmt.Sprintf("c%d", len(s)))
			if v == len(alpha) {
				break
			}
			s = append(s, alpha[v])
		}
	}
	v := string(s)
	x.NonTrivial()
	var hdr http.Header
	host := "example.org"
	if originMode {
		hdr = http.Header{"Connection": {"Upgrade"}, "Upgrade": {"websocket"}, "Sec-Websocket-Version": {"13"}, "Sec-Websocket-Key": {v}, "Origin": {v}}
		host = v
	} else {
		hdr = http.Header{"Connection": {v, "Upgrade"}, "Upgrade": {v, "websocket"}, "Sec-Websocket-Version": {v, "13"}, "Sec-Websocket-Key": {b64n(16)}, "Sec-Websocket-Protocol": {v}, "Sec-Websocket-Extensions": {v, "permessage-deflate; x=" + v}}
	}
	req := &http.Request{Method: "GET", Header: hdr, Host: host, Proto: "HTTP/1.1", ProtoMajor: 1, ProtoMinor: 1}
	up := websocket.IsWebSocketUpgrade(req)
	sp := websocket.Subprotocols(req)
	nc := netsim.NewConn(nil)
	w := newFakeRW(nc, 0, nil)
	u := &websocket.Upgrader{EnableCompression: true, Subprotocols: []string{"a"}}
	conn, err := u.Upgrade(w, req, nil)
	x.Obs("v=%q upgrade=%v subprotocols=%d conn=%v", v, up, len(sp), conn != nil)
	x.Check((conn == nil) == (err != nil), "C07:headers:conn-xor-err", "header value %q: conn=%v err=%v", v, conn != nil, err)
	x.Check(len(sp) <= len(v)+1, "C07:headers:subprotocols", "Subprotocols returned %d entries for %q", len(sp), v)
}

// c07LongRun: very long runs of tiny frames (a per-frame recursion, a per-frame allocation that
// is kept, or a loop that stops consuming would show as a crash, a memory blow-up or a hang).
func c07LongRun(x *explore.Ctx, readerIsServer bool, pat int, tier string) {
	n := 200000
	if tier == "thorough" {
		n = 3000000
	}
	mk := maskKeys[3]
	m := readerIsServer
	var unit []byte
	first := wsref.Encode(wsref.Frame{Opcode: wsref.OpBinary, Masked: m, Key: mk})
	switch pat {
	case 0: // an endless message of empty continuation frames
		unit = wsref.Encode(wsref.Frame{Opcode: wsref.OpCont, Masked: m, Key: mk})
	case 1: // pings with empty payload
		first, unit = nil, wsref.Encode(wsref.Frame{Fin: true, Opcode: wsref.OpPing, Masked: m, Key: mk})
	case 2: // pongs between the fragments of an endless message
		unit = wsref.Encode(wsref.Frame{Fin: true, Opcode: wsref.OpPong, Masked: m, Key: mk})
	case 3: // empty complete messages
		first, unit = nil, wsref.Encode(wsref.Frame{Fin: true, Opcode: wsref.OpText, Masked: m, Key: mk})
	case 4: // one-byte continuation frames
		unit = wsref.Encode(wsref.Frame{Opcode: wsref.OpCont, Masked: m, Key: mk, Payload: []byte{'x'}})
	}
	stream := append([]byte{}, first...)
	stream = append(stream, bytes.Repeat(unit, n)...)
	nc := netsim.NewConn(stream)
	nc.NoReadLog = true
	c := websocket.VerifNewConn(nc, readerIsServer, 0, 0, nil, false)
	// stack depth seen from inside the handlers: a per-frame recursion (which heap counters do not
	// show) makes it grow with the number of frames
	maxDepth, calls := 0, 0
	var pcs [512]uintptr
	depth := func(string) error {
		if calls++; calls%997 == 0 || calls < 4 {
			if d := runtime.Callers(0, pcs[:]); d > maxDepth {
				maxDepth = d
			}
		}
		return nil
	}
	c.SetPingHandler(depth)
	c.SetPongHandler(depth)
	msgs, bytesGot := 0, 0
	var stack0, stack1 runtime.MemStats
	runtime.ReadMemStats(&stack0)
	alloc := memGuard(func() {
		for {
			_, r, err := c.NextReader()
			if err != nil {
				break
			}
			k, _ := io.Copy(io.Discard, r)
			bytesGot += int(k)
			msgs++
			if msgs > n+2 {
				break
			}
		}
	})
	x.NonTrivial()
	x.Obs("pattern=%d frames=%d messages=%d bytes=%d", pat, n, msgs, bytesGot)
	x.Check(msgs <= n+1, "C07:long-run:no-progress", "read loop produced more messages than frames")
	runtime.ReadMemStats(&stack1)
	x.Check(maxDepth < 200, "C07:long-run:stack-depth", "a handler ran %d (or more) stack frames deep during a run of %d tiny frames: stack use grows with the number of frames received", maxDepth, n)
	x.Check(stack1.StackInuse <= stack0.StackInuse+(32<<20), "C07:long-run:stack", "goroutine stacks grew from %d to %d bytes during a run of %d tiny frames (%d input bytes)", stack0.StackInuse, stack1.StackInuse, n, len(stream))
	x.Check(alloc <= uint64(8<<20+64*len(stream)), "C07:long-run:allocation", "%d bytes allocated for a run of %d tiny frames (%d input bytes)", alloc, n, len(stream))
}
