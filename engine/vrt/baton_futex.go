//go:build race

package vrt

import (
	"syscall"
	"unsafe"
)

// In the race flavour the baton must be invisible to ThreadSanitizer: a hand-off through a
// channel or sync/atomic would be a happens-before edge and hide the races of the code
// under test.  A futex waited on by a raw system call inside //go:norace functions
// serialises execution without telling the race detector anything.
type baton struct{ w *uint32 }

func newBaton() baton { return baton{w: new(uint32)} }

const (
	futexWait = 0
	futexWake = 1
)

//go:norace
//go:noinline
func load(p *uint32) uint32 { return *p }

//go:norace
func (b baton) wake() {
	*b.w = 1
	syscall.Syscall6(syscall.SYS_FUTEX, uintptr(unsafe.Pointer(b.w)), futexWake, 1, 0, 0, 0)
}

//go:norace
func (b baton) park() {
	for load(b.w) == 0 {
		syscall.Syscall6(syscall.SYS_FUTEX, uintptr(unsafe.Pointer(b.w)), futexWait, 0, 0, 0, 0)
	}
	*b.w = 0
}
