//go:build verif

package checks

import (
	"bytes"
	"encoding/json"
	"fmt"
	"io"
	"sort"
	"time"

	"github.com/gorilla/websocket"
	"verif.local/engine/explore"
	"verif.local/ref/netsim"
	"verif.local/ref/rawdeflate"
	"verif.local/ref/wsref"
)

// ---------------------------------------------------------------------------------------
// Conformant stream generator (independent encoder)

var maskKeys = [][4]byte{{0xa5, 0xa5, 0x5a, 0x5a}, {0, 0, 0, 0}, {0xff, 0xff, 0xff, 0xff}, {1, 2, 3, 4}, {0x80, 0, 0, 1}}

// encoding kinds of a message: 0 = uncompressed, 1..NKinds = rawdeflate kinds, then flate levels
type encKind struct {
	name  string
	raw   int // rawdeflate kind, -1 none
	level int // flate level when raw == -1 and comp
	comp  bool
}

func encKinds(tier string) []encKind {
	ks := []encKind{{name: "plain", raw: -1}}
	for k := 0; k < rawdeflate.NKinds; k++ {
		ks = append(ks, encKind{name: "raw-" + rawdeflate.KindNames[k], raw: k, comp: true})
	}
	lv := []int{1, 0}
	if tier == "thorough" {
		lv = []int{-2, -1, 0, 1, 2, 3, 4, 5, 6, 7, 8, 9}
	}
	for _, l := range lv {
		ks = append(ks, encKind{name: fmt.Sprintf("flate%d", l), raw: -1, level: l, comp: true})
	}
	return ks
}

type ctlAt struct {
	slot    int // before fragment `slot` (slot == nfrags: after the message)
	op      byte
	payload []byte
}

// genEvent is one item of the expected wire order.
type genEvent struct {
	ctl        bool
	op         byte   // control opcode
	payload    []byte // control payload / application payload
	typ        int
	dataBefore int  // control: application-visible wire payload bytes of data frames that precede it in its message (uncompressed: byte exact)
	msgIndex   int  // index of the data message the control frame is inside/before
	inside     bool // between two data frames of message msgIndex
	pre        bool // before the first data frame of message msgIndex
	compressed bool
}

type ctlKind struct {
	op byte
	n  int
}

var defaultCtlKinds = []ctlKind{{wsref.OpPing, 0}, {wsref.OpPing, 125}, {wsref.OpPong, 1}}

type genStream struct {
	quick    bool
	ctlKinds []ctlKind
	maxCtl   int
	frames   []wsref.Frame
	events   []genEvent
	msgs     []wsref.Message // data messages expected
}

func (g *genStream) npat() int {
	if g.quick {
		return 3
	}
	return NPatterns
}

func (g *genStream) nchunk() int {
	if g.quick {
		return 4
	}
	return len(chunkChoices)
}

func (g *genStream) nkeys() int {
	if g.quick {
		return 3
	}
	return len(maskKeys)
}

var c03Sizes = []int{0, 1, 2, 5, 125, 126, 300}

func cutSet(n int) []int {
	if n <= 16 {
		r := make([]int, n+1)
		for i := range r {
			r[i] = i
		}
		return r
	}
	m := map[int]bool{}
	for _, v := range []int{0, 1, 2, n / 2, n - 1, n, 125, 126, 127} {
		if v >= 0 && v <= n {
			m[v] = true
		}
	}
	var r []int
	for v := range m {
		r = append(r, v)
	}
	sort.Ints(r)
	return r
}

// addMessage appends one data message to the stream under explorer control.
func (g *genStream) addMessage(x *explore.Ctx, pfx string, masked bool, ek encKind, sizeIdx int, maxFrags int, pick func(int, string) int, json bool) {
	n := c03Sizes[sizeIdx]
	typ := []int{websocket.TextMessage, websocket.BinaryMessage}[x.Choose(2, pfx+"type")]
	app := Pattern(x.Choose(g.npat(), pfx+"pattern"), n)
	if json {
		typ = websocket.TextMessage
		app = jsonDoc(n)
	}
	wire := app
	if ek.comp {
		if json && ek.raw == rawdeflate.KMatch {
			ek.raw = rawdeflate.KFixed // KMatch alters the payload
		}
		if ek.raw >= 0 {
			wire, app = rawdeflate.Message(ek.raw, app)
		} else {
			wire = wsref.Deflate(app, ek.level)
		}
	}
	// fragmentation: nfrags-1 cut points, non-decreasing (empty fragments allowed)
	nfrags := 1 + pick(maxFrags, pfx+"nfrags-1")
	cs := cutSet(len(wire))
	var cuts []int
	lo := 0
	for i := 0; i < nfrags-1; i++ {
		var opts []int
		for _, c := range cs {
			if c >= lo {
				opts = append(opts, c)
			}
		}
		c := opts[pick(len(opts), fmt.Sprintf("%scut%d", pfx, i))]
		cuts = append(cuts, c)
		lo = c
	}
	// control frames: up to two, each at a slot 0..nfrags
	var ctls []ctlAt
	kinds, maxCtl := g.ctlKinds, g.maxCtl
	if kinds == nil {
		kinds, maxCtl = defaultCtlKinds, 2
	}
	for k := 0; k < maxCtl; k++ {
		v := x.Choose(1+(nfrags+1)*len(kinds), fmt.Sprintf("%sctl%d", pfx, k))
		if v == 0 {
			break
		}
		v--
		slot, kind := v/len(kinds), kinds[v%len(kinds)]
		ctls = append(ctls, ctlAt{slot: slot, op: kind.op, payload: Pattern(3+k, kind.n)})
	}
	keyBase := 0
	if masked {
		keyBase = x.Choose(g.nkeys(), pfx+"maskkey")
	}
	mi := len(g.msgs)
	prev := 0
	bounds := append(append([]int{}, cuts...), len(wire))
	for fi := 0; fi <= nfrags; fi++ {
		for _, c := range ctls {
			if c.slot == fi {
				f := wsref.Frame{Fin: true, Opcode: c.op, Masked: masked, Key: maskKeys[(keyBase+fi+1)%len(maskKeys)], Payload: c.payload}
				g.frames = append(g.frames, f)
				ev := genEvent{ctl: true, op: c.op, payload: c.payload, dataBefore: prev, msgIndex: mi, inside: fi > 0 && fi < nfrags, pre: fi == 0, compressed: ek.comp}
				if fi == nfrags {
					ev.msgIndex = mi + 1
					ev.dataBefore = 0
					ev.inside = false
					ev.pre = true
				}
				g.events = append(g.events, ev)
			}
		}
		if fi == nfrags {
			break
		}
		f := wsref.Frame{Opcode: wsref.OpCont, Masked: masked, Key: maskKeys[(keyBase+fi)%len(maskKeys)], Payload: wire[prev:bounds[fi]], Fin: fi == nfrags-1}
		if fi == 0 {
			f.Opcode = byte(typ)
			f.Rsv1 = ek.comp
		}
		g.frames = append(g.frames, f)
		prev = bounds[fi]
	}
	g.msgs = append(g.msgs, wsref.Message{Type: typ, Payload: app, Compressed: ek.comp})
	g.events = append(g.events, genEvent{typ: typ, payload: app, msgIndex: mi, compressed: ek.comp})
}

func jsonDoc(n int) []byte {
	b, _ := json.Marshal(map[string]any{"s": string(Pattern(4, n)), "n": n})
	return b
}

// ---------------------------------------------------------------------------------------

func init() {
	Register(&Check{
		ID:        "C03",
		Technique: "deviation-bounded exhaustive exploration of conformant streams built by an independent RFC 6455/7692 encoder, read back through every read program on the real Conn; plus complete lane-wise enumeration of maskBytes",
		Rule:      "core product {reader role x message encoding (plain, 6 hand-made DEFLATE shapes, compress/flate levels) x size x fragment count x every cut composition} complete; control frame placement, mask keys, further messages, read buffer, read program, read size, abandon, chunking deviation-bounded; separate families: every two-chunk split of short streams, ReadJSON, complete maskBytes table. non-trivial = stream has >= 1 frame and a non-default choice; distinct by observation hash",
		Assumptions: []string{
			"streams come from ref/wsref's encoder and ref/rawdeflate / compress/flate deflaters, never from the library's writer",
			"all 2^32 mask keys are covered by the lane-wise argument: each key byte acts only on its own lane, all 256 values of each lane x 4 start positions x 8 alignments x lengths 0..40 are enumerated (maskBytes family)",
		},
		Budget:    map[string]time.Duration{"quick": 100 * time.Second, "thorough": 40 * time.Minute},
		Bound:     map[string]string{"quick": "<= 2 messages, <= 3 fragments, deviations <= 2", "thorough": "<= 3 messages, <= 4 fragments, all flate levels: deviations <= 2 over the whole product, <= 3 on a sub-lattice (first-message sizes 1 and 125, plain / hand-made DEFLATE / levels 0 and 1)"},
		Scenarios: c03Scenarios,
	})
}

func c03Scenarios(tier string) []*explore.Scenario {
	var scs []*explore.Scenario
	bound, maxFrags := 2, 3
	if tier == "thorough" {
		bound, maxFrags = 3, 4
	}
	for _, readerIsServer := range []bool{true, false} {
		for _, ek := range encKinds(tier) {
			for si := range c03Sizes {
				readerIsServer, ek, si := readerIsServer, ek, si
				bound := bound
				if tier == "thorough" && !(si%3 == 1 && (ek.raw >= 0 || !ek.comp || ek.level == 1 || ek.level == 0)) {
					// thorough: the whole product with the full value sets at deviation bound 2; bound 3
					// on a sub-lattice (sizes 1 and 125, the quick encodings) so that the tier completes
					bound = 2
				}
				scs = append(scs, &explore.Scenario{
					Name:  fmt.Sprintf("c03/stream/reader=%s/enc=%s/size=%d", roleName(readerIsServer), ek.name, c03Sizes[si]),
					Bound: bound,
					Body:  func(x *explore.Ctx) { c03Body(x, readerIsServer, ek, si, maxFrags, tier, false) },
				})
			}
		}
		// every two-chunk split point of short streams
		for _, ek := range encKinds(tier)[:3] {
			readerIsServer, ek := readerIsServer, ek
			scs = append(scs, &explore.Scenario{
				Name:  fmt.Sprintf("c03/split/reader=%s/enc=%s", roleName(readerIsServer), ek.name),
				Bound: 1,
				Body:  func(x *explore.Ctx) { c03Body(x, readerIsServer, ek, 4, 3, tier, true) },
			})
		}
		for ei, ek := range encKinds(tier) {
			readerIsServer, ei, ek := readerIsServer, ei, ek
			scs = append(scs, &explore.Scenario{
				Name:  fmt.Sprintf("c03/json/reader=%s/enc=%s", roleName(readerIsServer), ek.name),
				Bound: bound - 1,
				Body:  func(x *explore.Ctx) { c03JSON(x, readerIsServer, tier, ei) },
			})
		}
	}
	for pos := 0; pos < 4; pos++ {
		pos := pos
		scs = append(scs, &explore.Scenario{Name: fmt.Sprintf("c03/maskbytes/pos=%d", pos), Bound: 0, Body: func(x *explore.Ctx) { c03MaskBytes(x, pos) }})
	}
	return scs
}

func c03Body(x *explore.Ctx, readerIsServer bool, ek encKind, sizeIdx, maxFrags int, tier string, split bool) {
	g := &genStream{quick: tier == "quick"}
	masked := readerIsServer
	g.addMessage(x, "m0.", masked, ek, sizeIdx, maxFrags, x.Pick, false)
	nm := 2
	if tier == "thorough" {
		nm = 3
	}
	eks := encKinds(tier)
	for mi := 1; mi < nm; mi++ {
		pfx := fmt.Sprintf("m%d.", mi)
		if x.Choose(2, pfx+"more") == 0 {
			break
		}
		ek2 := ek
		if ek.comp {
			// negotiated: later messages may be of any encoding
			ek2 = eks[x.Choose(len(eks), pfx+"enc")]
		}
		// (default size of a further message is 5 bytes, not 0: an empty message hides payload bugs)
		g.addMessage(x, pfx, masked, ek2, (3+x.Choose(len(c03Sizes), pfx+"size"))%len(c03Sizes), maxFrags, x.Choose, false)
	}
	stream := wsref.EncodeAll(g.frames)
	readStream(x, "C03", g, stream, readerIsServer, ek.comp, split)
}

var c03Rbs = []int{0, 1, 125, 126, 256}

// readStream runs a read program over the stream and compares with the generator's list.
func readStream(x *explore.Ctx, id string, g *genStream, stream []byte, readerIsServer, deflate, split bool) {
	x.NonTrivial()
	nc := netsim.NewConn(stream)
	nc.NoReadLog = true
	if split {
		k := x.Pick(len(stream)+1, "split")
		nc.Chunk = netsim.ChunkSplitAt(k)
	} else if ch := chunkChoices[x.Choose(g.nchunk(), "chunking")]; ch > 0 {
		nc.Chunk = netsim.ChunkFixed(ch)
	}
	eofWithLast := false
	if x.Choose(2, "eof-with-last-bytes") == 1 {
		eofWithLast = true
		// the transport hands out the last bytes of the stream together with io.EOF (allowed by
		// io.Reader): every message is complete, so every message must still be delivered
		nc.LastWith = netsim.FailDataEOF
	}
	rbs := c03Rbs[x.Choose(len(c03Rbs), "ReadBufferSize")]
	c := websocket.VerifNewConn(nc, readerIsServer, rbs, 150, nil, deflate)
	// one dimension: read program incl. abandoning the first message (so that "abandon, then
	// read the next message" costs one deviation plus one for the second message)
	rprog, abandon := 0, 0
	switch v := x.Choose(8, "readprog"); {
	case v < 4:
		rprog = v
	default:
		rprog, abandon = 1, v-3 // 1: after 0 bytes, 2: after 1 byte, 3: after half, 4: after 3 bytes
	}
	rbuf := 4096
	if rprog >= 1 {
		// NextReader+Read and JoinMessages are read with the chosen buffer size
		rbuf = rbufChoices[x.Choose(len(rbufChoices), "readsize")]
	}
	key := func(what string) string {
		return fmt.Sprintf("%s:%s:reader=%s:deflate=%v", id, what, roleName(readerIsServer), deflate)
	}
	// handlers: record with ordering information
	delivered := 0 // application bytes of the current message returned by completed Read calls
	curMsg := -1   // index of the message whose reader is open (-1: between messages)
	handled := 0   // number of control events handled
	var ctlEvents []genEvent
	for _, ev := range g.events {
		if ev.ctl {
			ctlEvents = append(ctlEvents, ev)
		}
	}
	onCtl := func(op byte, s string) error {
		x.Check(handled < len(ctlEvents), key("handler-extra"), "handler called for a control frame that is not in the stream (op %d %q)", op, s)
		ev := ctlEvents[handled]
		x.Check(ev.op == op && string(ev.payload) == s, key("handler-payload"), "handler #%d got op %d payload %.40q, wire has op %d payload %.40q", handled, op, s, ev.op, ev.payload)
		// ordering against data (only while a message reader is open: curMsg >= 0)
		if curMsg >= 0 {
			full := len(g.msgs[curMsg].Payload)
			switch {
			case ev.msgIndex == curMsg && ev.inside && !ev.compressed:
				x.Check(delivered <= ev.dataBefore, key("handler-late"), "handler for control frame #%d ran after %d payload bytes were delivered, only %d precede it on the wire", handled, delivered, ev.dataBefore)
			case ev.msgIndex > curMsg && !g.msgs[curMsg].Compressed:
				x.Check(delivered >= full, key("handler-early"), "handler for a control frame that follows message %d ran when only %d of its %d bytes had been delivered", curMsg, delivered, full)
			}
		}
		handled++
		return nil
	}
	c.SetPingHandler(func(s string) error { return onCtl(wsref.OpPing, s) })
	c.SetPongHandler(func(s string) error { return onCtl(wsref.OpPong, s) })
	// all control frames strictly before position (msg, bytes) must have been handled
	mustHaveHandled := func(msg, bytesDelivered int, atEOF bool, where string) {
		for i, ev := range ctlEvents {
			need := false
			switch {
			case ev.msgIndex < msg:
				need = true
			case ev.msgIndex == msg && ev.pre:
				need = true
			case ev.msgIndex == msg && ev.inside && !ev.compressed && bytesDelivered > ev.dataBefore:
				need = true
			case ev.msgIndex == msg && atEOF && !ev.compressed:
				// (an inflater may legitimately report the end of a compressed message before
				// the trailing frames have been consumed, e.g. after a BFINAL block)
				need = true
			}
			if need {
				x.Check(i < handled, key("handler-missed"), "%s: control frame #%d (op %d) precedes delivered data on the wire but its handler has not run", where, i, ev.op)
			}
		}
	}
	want := g.msgs
	var got []wsref.Message
	var endErr error
	switch rprog {
	case 0, 1:
		for i := 0; i <= len(want); i++ {
			if rprog == 0 {
				t, p, err := c.ReadMessage()
				if err != nil {
					endErr = err
					break
				}
				mustHaveHandled(i, len(p), true, "ReadMessage")
				got = append(got, wsref.Message{Type: t, Payload: p})
				continue
			}
			t, r, err := c.NextReader()
			if err != nil {
				endErr = err
				break
			}
			curMsg, delivered = i, 0
			mustHaveHandled(i, 0, false, "NextReader")
			var all []byte
			buf := make([]byte, rbuf)
			limit := -1
			if i == 0 && abandon > 0 && len(want) > 0 {
				limit = min([]int{0, 0, 1, len(want[0].Payload) / 2, 3}[abandon], len(want[0].Payload))
			}
			abandoned := false
			for {
				if limit >= 0 && len(all) >= limit {
					abandoned = true
					break
				}
				b := buf
				if limit >= 0 && len(b) > limit-len(all) {
					b = b[:limit-len(all)]
				}
				n, err := r.Read(b)
				all = append(all, b[:n]...)
				delivered = len(all)
				if err == io.EOF {
					x.Check(i < len(want) && len(all) == len(want[i].Payload), key("eof-position"), "message %d: end of message signalled after %d bytes, true length %d", i, len(all), len(want[i].Payload))
					mustHaveHandled(i, len(all), true, "Read->EOF")
					break
				}
				if err != nil {
					x.Failf(key("read-error"), "Read of message %d failed after %d bytes: %v", i, len(all), err)
				}
				mustHaveHandled(i, len(all), false, "Read")
				x.Check(i < len(want) && len(all) <= len(want[i].Payload), key("overrun"), "message %d: %d bytes delivered, true length %d", i, len(all), len(want[i].Payload))
			}
			curMsg = -1
			if abandoned {
				x.Check(i < len(want) && bytes.HasPrefix(want[i].Payload, all) && t == want[i].Type, key("abandoned-prefix"), "abandoned message %d: delivered %s is not a prefix of the encoded message", i, short(all))
				got = append(got, wsref.Message{Type: t, Payload: want[i].Payload})
				continue
			}
			got = append(got, wsref.Message{Type: t, Payload: all})
		}
		x.Check(endErr != nil, key("extra-message"), "reader delivered more messages than the stream encodes: %s", fmtMsgs(got))
		x.Obs("read: %s end=%v handled=%d", fmtMsgs(got), endErr != nil, handled)
		x.Check(len(got) == len(want), key("count"), "reader delivered %d messages, stream encodes %d (end error %v)", len(got), len(want), endErr)
		for i := range want {
			x.Check(got[i].Type == want[i].Type, key("type"), "message %d: type %d delivered, %d encoded", i, got[i].Type, want[i].Type)
			x.Check(bytes.Equal(got[i].Payload, want[i].Payload), key("payload"), "message %d (%d bytes encoded): delivered %s (%d bytes)", i, len(want[i].Payload), short(got[i].Payload), len(got[i].Payload))
		}
	default:
		term := ""
		if rprog == 3 {
			term = ","
		}
		jr := websocket.JoinMessages(c, term)
		var all []byte
		var err error
		jbuf := make([]byte, rbuf)
		for len(all) < 1<<26 {
			var n int
			n, err = jr.Read(jbuf)
			all = append(all, jbuf[:n]...)
			if err != nil {
				break
			}
		}
		// (when the transport reports io.EOF together with the last bytes of the last message, the
		// stream ends exactly at a message boundary and the connection's error is that io.EOF)
		x.Check(err != nil && (err != io.EOF || eofWithLast), key("join-end"), "JoinMessages reader ended without the connection's error (%v)", err)
		var exp []byte
		for _, m := range want {
			exp = append(exp, m.Payload...)
			exp = append(exp, term...)
		}
		x.Obs("join: %d bytes handled=%d", len(all), handled)
		x.Check(bytes.Equal(all, exp), key("join-payload"), "JoinMessages delivered %d bytes %s, want %d bytes %s", len(all), short(all), len(exp), short(exp))
	}
	x.Check(handled == len(ctlEvents), key("handler-count"), "%d control frames handled, stream has %d", handled, len(ctlEvents))
}

func c03JSON(x *explore.Ctx, readerIsServer bool, tier string, ei int) {
	g := &genStream{quick: tier == "quick"}
	ek := encKinds(tier)[ei]
	g.addMessage(x, "m0.", readerIsServer, ek, x.Pick(len(c03Sizes), "size"), 3, x.Pick, true)
	stream := wsref.EncodeAll(g.frames)
	nc := netsim.NewConn(stream)
	if ch := chunkChoices[x.Choose(len(chunkChoices), "chunking")]; ch > 0 {
		nc.Chunk = netsim.ChunkFixed(ch)
	}
	c := websocket.VerifNewConn(nc, readerIsServer, c03Rbs[x.Choose(len(c03Rbs), "ReadBufferSize")], 150, nil, ek.comp)
	x.NonTrivial()
	var v map[string]any
	err := c.ReadJSON(&v)
	x.Obs("ReadJSON err=%v", err)
	key := fmt.Sprintf("C03:readjson:reader=%s:deflate=%v", roleName(readerIsServer), ek.comp)
	x.Check(err == nil, key, "ReadJSON on a conformant stream failed: %v", err)
	var want map[string]any
	json.Unmarshal(g.msgs[0].Payload, &want)
	x.Check(fmt.Sprint(v) == fmt.Sprint(want), key, "ReadJSON decoded %.60v, want %.60v", v, want)
}

// c03MaskBytes enumerates maskBytes completely lane-wise against a byte-wise XOR.
func c03MaskBytes(x *explore.Ctx, pos int) {
	lane := x.Pick(4, "lane")
	x.NonTrivial()
	bad := 0
	backing := make([]byte, 64)
	for v := 0; v < 256; v++ {
		var key [4]byte
		key[lane] = byte(v)
		for align := 0; align < 8; align++ {
			for n := 0; n <= 40; n++ {
				for i := range backing {
					backing[i] = byte(i*7 + 3)
				}
				// find an offset with the requested alignment
				off := 0
				for ; off < 8; off++ {
					if (addrOf(backing)+uintptr(off))%8 == uintptr(align) {
						break
					}
				}
				b := backing[off : off+n]
				ret := websocket.VerifMaskBytes(key, pos, b)
				for i := 0; i < n; i++ {
					if b[i] != byte((off+i)*7+3)^key[(pos+i)&3] {
						bad++
					}
				}
				if ret != (pos+n)&3 {
					bad++
				}
				// bytes outside the slice untouched
				for i := 0; i < off; i++ {
					if backing[i] != byte(i*7+3) {
						bad++
					}
				}
				for i := off + n; i < len(backing); i++ {
					if backing[i] != byte(i*7+3) {
						bad++
					}
				}
			}
		}
	}
	x.Obs("maskBytes pos=%d lane=%d bad=%d", pos, lane, bad)
	x.Check(bad == 0, "C03:maskbytes", "maskBytes disagrees with byte-wise XOR in %d places (pos=%d lane=%d)", bad, pos, lane)
}
