//go:build verif

package checks

import (
	"bufio"
	"context"
	"crypto/tls"
	"fmt"
	"io"
	"net/http"
	"time"

	"github.com/gorilla/websocket"
	"verif.local/engine/explore"
	"verif.local/ref/netsim"
	"verif.local/ref/wsref"
)

func init() {
	Register(&Check{
		ID:          "C16",
		Technique:   "fault enumeration: every transport operation (Read, Write, SetDeadline, SetWriteDeadline, Close) of every dial path (direct, HTTP/HTTPS CONNECT proxy, SOCKS5, with and without TLS, in-process peers over a synchronous pipe) and of Upgrade is a choice point with answers {ok, error, timeout, EOF}; negative replies; timeout settings",
		Rule:        "client cells = {7 dial paths} x {HandshakeTimeout 0 | 1h} x {context deadline none | shorter | longer} x {negative replies: non-101, bad accept, bad compression parameters, proxy refusal, SOCKS refusal, certificate for another host, untrusted CA} x {fault kind at every operation index of the dialed connection}; server cells = {reader reused | wrapped | fresh} x {HandshakeTimeout 0 | >0} x {Hijack failing | fault at every transport op}. One fault per execution. non-trivial = a connection was dialed/hijacked and a non-default choice; distinct by observation hash",
		Assumptions: []string{"raw I/O performed inside tls.Conn.HandshakeContext on a TLS first hop (direct wss, https proxy) happens before the library arms its deadline and is bounded by the context instead (exempt from the armed-deadline rule; operations after the TLS handshake are checked)", "TLS peers are in-process crypto/tls servers with an Ed25519 test PKI"},
		Budget:      map[string]time.Duration{"quick": 100 * time.Second, "thorough": 15 * time.Minute},
		Bound:       map[string]string{"quick": "deviations <= 2 (fault + one setting)", "thorough": "deviations <= 3"},
		Scenarios:   c16Scenarios,
	})
}

func c16Scenarios(tier string) []*explore.Scenario {
	bound := 2
	if tier == "thorough" {
		bound = 3
	}
	var scs []*explore.Scenario
	for pi := range dialPaths {
		pi := pi
		scs = append(scs, &explore.Scenario{Name: "c16/dial/" + dialPaths[pi].name, Bound: bound, Body: func(x *explore.Ctx) { c16Dial(x, pi) }})
	}
	for _, mode := range []string{"reused", "wrapped", "fresh"} {
		mode := mode
		scs = append(scs, &explore.Scenario{Name: "c16/upgrade/" + mode, Bound: bound, Body: func(x *explore.Ctx) { c16Upgrade(x, mode) }})
	}
	for _, mode := range []string{"reused", "wrapped", "fresh"} {
		mode := mode
		scs = append(scs, &explore.Scenario{Name: "c16/upgrade-over-tls/" + mode, Bound: bound, Body: func(x *explore.Ctx) { c16UpgradeTLS(x, mode) }})
	}
	return scs
}

// c16UpgradeTLS: the hijacked connection is a real *tls.Conn (net/http serving wss) over a
// logged pipe; a TLS client completes the handshake and, depending on the mode, sends a frame
// early so that the hijacked reader has buffered data.
func c16UpgradeTLS(x *explore.Ctx, mode string) {
	pki := netsim.TestPKI()
	a, b := netsim.NewPipe("upg")
	logged := &netsim.Logged{Inner: b, Name: "hijacked"}
	srv := tls.Server(logged, &tls.Config{Certificates: []tls.Certificate{pki.Leaf("server.example", false)}, SessionTicketsDisabled: true})
	early := wsref.Encode(wsref.Frame{Fin: true, Opcode: wsref.OpText, Masked: true, Key: maskKeys[3], Payload: []byte("early")})
	done := make(chan struct{})
	go func() {
		defer close(done)
		ct := tls.Client(a, &tls.Config{RootCAs: pki.Roots, ServerName: "server.example"})
		if err := ct.Handshake(); err != nil {
			a.Close()
			return
		}
		if mode != "fresh" {
			ct.Write(early)
		}
		io.Copy(io.Discard, ct)
	}()
	if err := srv.Handshake(); err != nil {
		panic("c16: TLS handshake of the harness failed: " + err.Error())
	}
	rbs, hs := 0, 4096
	if mode != "reused" {
		rbs = 1024
	}
	br := bufio.NewReaderSize(srv, hs)
	if mode != "fresh" {
		br.Peek(1)
	}
	w := &fakeRW{hdr: http.Header{}}
	w.BR, w.BW = br, bufio.NewWriterSize(srv, 4096)
	w.hijackConn = srv
	hto := x.Choose(2, "HandshakeTimeout")
	u := &websocket.Upgrader{ReadBufferSize: rbs}
	if hto == 1 {
		u.HandshakeTimeout = time.Hour
	}
	preOps := len(logged.Snapshot())
	hdr := http.Header{"Connection": {"Upgrade"}, "Upgrade": {"websocket"}, "Sec-Websocket-Version": {"13"}, "Sec-Websocket-Key": {b64n(16)}}
	req := &http.Request{Method: "GET", Header: hdr, Host: "server.example", Proto: "HTTP/1.1", ProtoMajor: 1, ProtoMinor: 1}
	conn, err := u.Upgrade(w, req, nil)
	x.NonTrivial()
	var opsS []string
	for _, o := range logged.Snapshot()[preOps:] {
		opsS = append(opsS, o.String())
	}
	x.Obs("hto=%d -> conn=%v err=%v ops=%v", hto, conn != nil, err != nil, opsS)
	key := func(what string) string { return fmt.Sprintf("C16:upgrade-tls-%s:%s", what, mode) }
	x.Check(conn != nil && err == nil, key("good-upgrade-failed"), "fault-free Upgrade over TLS failed: %v", err)
	x.Check(!logged.IsClosed(), key("closed-on-success"), "connection closed although Upgrade succeeded")
	x.Check(logged.WDL.IsZero() && logged.RDL.IsZero(), key("deadline-left-armed"), "Upgrade over TLS succeeded but a deadline is still armed on the network connection: read %v write %v (HandshakeTimeout=%d)", logged.RDL, logged.WDL, hto)
	if mode != "fresh" {
		t, p, rerr := conn.ReadMessage()
		x.Check(rerr == nil && t == websocket.TextMessage && string(p) == "early", key("early-frame-lost"), "frame sent with the handshake: %v %q", rerr, p)
	}
	srv.Close()
	a.Close()
	<-done
}

var c16Neg = []struct {
	name string
	o    backendOpts
	only string // "" all; "tls" wss only; "httpproxy"; "socks"
}{
	{"none", backendOpts{}, ""},
	{"reply-200", backendOpts{reply: "200"}, ""},
	{"bad-accept", backendOpts{reply: "badaccept"}, ""},
	{"bad-compression", backendOpts{reply: "badcompression"}, ""},
	{"proxy-407", backendOpts{proxyResp: "407 Proxy Authentication Required"}, "httpproxy"},
	{"proxy-407-no-reason", backendOpts{proxyResp: "407"}, "httpproxy"},
	{"proxy-502", backendOpts{proxyResp: "502 Bad Gateway"}, "httpproxy"},
	{"proxy-garbage", backendOpts{proxyResp: "garbage"}, "httpproxy"},
	{"proxy-eof", backendOpts{proxyResp: "eof"}, "httpproxy"},
	{"socks-refuse", backendOpts{socksRef: true}, "socks"},
	{"cert-other-host", backendOpts{certHost: "other.example"}, "tls"},
	{"cert-untrusted", backendOpts{untrusted: true}, "tls"},
}

var c16ReadFaults = []netsim.Fault{netsim.OK, netsim.FailErr, netsim.FailTimeout, netsim.FailEOF}
var c16OtherFaults = []netsim.Fault{netsim.OK, netsim.FailErr, netsim.FailTimeout}

func c16Dial(x *explore.Ctx, pi int) {
	p := dialPaths[pi]
	n := newSimNet()
	negI := x.Choose(len(c16Neg), "negative")
	neg := c16Neg[negI]
	isTLS := p.url[:3] == "wss"
	switch neg.only {
	case "tls":
		if !isTLS {
			neg = c16Neg[0]
		}
	case "httpproxy":
		if p.proxy == "" || p.proxy[:4] != "http" {
			neg = c16Neg[0]
		}
	case "socks":
		if p.proxy == "" || p.proxy[:5] != "socks" {
			neg = c16Neg[0]
		}
	}
	d := n.setupPath(p, neg.o)
	d.NetDialContext = n.NetDialContext
	hto := x.Choose(2, "HandshakeTimeout")
	if hto == 1 {
		d.HandshakeTimeout = time.Hour
	}
	ctxSel := x.Choose(3, "context-deadline")
	ctx := context.Background()
	var cancel func()
	var limit time.Duration
	switch ctxSel {
	case 1:
		ctx, cancel = context.WithTimeout(ctx, 30*time.Minute)
		limit = 30 * time.Minute
	case 2:
		ctx, cancel = context.WithTimeout(ctx, 2*time.Hour)
		limit = 2 * time.Hour
	}
	if hto == 1 && (limit == 0 || limit > time.Hour) {
		limit = time.Hour
	}
	if neg.name == "bad-compression" {
		d.EnableCompression = true
	}
	injected := false
	var faultAt int
	var faultKind netsim.Fault
	var faultOp netsim.OpKind
	n.Decide = func(l *netsim.Logged, kind netsim.OpKind, index int) netsim.Fault {
		if injected {
			return netsim.OK
		}
		fl := c16OtherFaults
		if kind == netsim.OpRead {
			fl = c16ReadFaults
		}
		if kind == netsim.OpClose {
			return netsim.OK
		}
		f := fl[x.Choose(len(fl), fmt.Sprintf("fault@%v", kind))]
		if f != netsim.OK {
			injected, faultAt, faultKind, faultOp = true, index, f, kind
		}
		return f
	}
	t0 := time.Now()
	conn, resp, err := d.DialContext(ctx, p.url, nil)
	t1 := time.Now()
	if cancel != nil {
		cancel()
	}
	key := func(what string) string { return fmt.Sprintf("C16:%s:path=%s", what, p.name) }
	var ops []netsim.Op
	var first *netsim.Logged
	if len(n.Conns) > 0 {
		first = n.Conns[0]
		ops = first.Snapshot()
		x.NonTrivial()
	}
	var opsS []string
	for _, o := range ops {
		opsS = append(opsS, o.String())
	}
	x.Obs("neg=%s hto=%d ctx=%d fault=%v@%d -> conn=%v resp=%v err=%v ops=%v", neg.name, hto, ctxSel, faultKind, faultAt, conn != nil, resp != nil, err != nil, opsS)
	x.Logf("err=%v peers=%v", err, n.Log.Snapshot())
	// a failing Read/Write is a point at which the handshake fails; a failing deadline call
	// may be survived (third-party proxy code ignores it) - then the success rules apply,
	// except "no deadline armed", which the environment itself has made impossible
	dlFault := injected && faultOp != netsim.OpRead && faultOp != netsim.OpWrite
	expectFail := (injected && !dlFault) || neg.name != "none" || (dlFault && conn == nil)
	x.Check((conn == nil) == (err != nil), key("conn-xor-err"), "DialContext returned conn=%v err=%v", conn != nil, err)
	if expectFail {
		x.Check(conn == nil && err != nil, key("failure-not-reported"), "handshake failure (%s, fault %v at op %d) but DialContext returned conn=%v err=%v", neg.name, faultKind, faultAt, conn != nil, err)
		for i, c := range n.Conns {
			x.Check(c.IsClosed(), key("leak-on-failure"), "handshake failed (%s, fault %v at op %d: %v) but network connection #%d (%s) was not closed", neg.name, faultKind, faultAt, err, i, c.Name)
		}
	} else {
		x.Check(conn != nil, key("good-handshake-failed"), "fault-free handshake failed: %v (peers: %v)", err, n.Log.Snapshot())
		x.Check(!first.IsClosed(), key("closed-on-success"), "connection closed although the handshake succeeded")
		x.Check(dlFault || first.WDL.IsZero() && first.RDL.IsZero(), key("deadline-left-armed"), "handshake succeeded but a deadline is still armed: read %v write %v", first.RDL, first.WDL)
	}
	if limit > 0 && first != nil && !dlFault {
		lo, hi := t0.Add(limit-time.Second), t1.Add(limit+time.Second)
		seenSet := false
		for _, o := range ops {
			switch o.Kind {
			case netsim.OpSetDeadline, netsim.OpSetReadDeadline, netsim.OpSetWriteDeadline:
				if o.Err == nil {
					seenSet = true
				}
			case netsim.OpRead, netsim.OpWrite:
				if p.tlsHop1 && !seenSet {
					continue // inside tls.HandshakeContext of the first hop: bounded by the context
				}
				dl := o.RDL
				if o.Kind == netsim.OpWrite {
					dl = o.WDL
				}
				ok := !dl.IsZero() && !dl.After(hi)
				_ = lo
				x.Check(ok, key("io-without-deadline"), "transport %v (op %d) performed with deadline %v although the handshake is limited to %v (HandshakeTimeout=%d, ctx=%d)", o.Kind, o.Index, dl, limit, hto, ctxSel)
			}
		}
	}
	if conn != nil {
		conn.Close()
	}
	n.Finish()
}

func c16Upgrade(x *explore.Ctx, mode string) {
	stream := wsref.Encode(wsref.Frame{Fin: true, Opcode: wsref.OpText, Masked: true, Key: maskKeys[3], Payload: []byte("early")})
	nc := netsim.NewConn(stream)
	rbs, hs := 0, 4096
	switch mode {
	case "wrapped":
		rbs = 1024
	case "fresh":
		rbs = 1024
		nc = netsim.NewConn(nil)
	}
	w := newFakeRW(nc, hs, nil)
	if mode != "fresh" {
		w.BR.Peek(1)
	}
	preOps := len(nc.Ops)
	hto := x.Choose(2, "HandshakeTimeout")
	u := &websocket.Upgrader{ReadBufferSize: rbs}
	if hto == 1 {
		u.HandshakeTimeout = time.Hour
	}
	hijackFails := x.Choose(2, "hijack-fails") == 1
	if hijackFails {
		w.HijackErr = errHijack
	}
	// net/http may have left a read deadline armed
	preRDL := time.Time{}
	if x.Choose(2, "server-read-deadline") == 1 {
		preRDL = time.Now().Add(3 * time.Hour)
		nc.RDL = preRDL
	}
	injected := false
	var faultAt int
	var faultKind netsim.Fault
	nc.Decide = func(c *netsim.Conn, kind netsim.OpKind, index int) netsim.Fault {
		if injected || index < preOps || kind == netsim.OpClose || kind == netsim.OpRead {
			return netsim.OK
		}
		f := c16OtherFaults[x.Choose(len(c16OtherFaults), fmt.Sprintf("fault@%v", kind))]
		if f != netsim.OK {
			injected, faultAt, faultKind = true, index, f
		}
		return f
	}
	hdr := http.Header{"Connection": {"Upgrade"}, "Upgrade": {"websocket"}, "Sec-Websocket-Version": {"13"}, "Sec-Websocket-Key": {b64n(16)}}
	req := &http.Request{Method: "GET", Header: hdr, Host: "h", Proto: "HTTP/1.1", ProtoMajor: 1, ProtoMinor: 1}
	conn, err := u.Upgrade(w, req, nil)
	x.NonTrivial()
	key := func(what string) string { return fmt.Sprintf("C16:upgrade-%s:%s", what, mode) }
	var opsS []string
	for _, o := range nc.Ops[preOps:] {
		opsS = append(opsS, o.String())
	}
	x.Obs("hto=%d hijackFails=%v fault=%v@%d -> conn=%v err=%v closed=%d ops=%v", hto, hijackFails, faultKind, faultAt, conn != nil, err != nil, nc.Closed, opsS)
	x.Check((conn == nil) == (err != nil), key("conn-xor-err"), "Upgrade returned conn=%v err=%v", conn != nil, err)
	switch {
	case hijackFails:
		x.Check(conn == nil, key("hijack-failure-ignored"), "Hijack failed but a connection was returned")
		x.Check(nc.Closed == 0 && len(nc.Out) == 0, key("touched-before-hijack"), "Hijack failed but the connection was written to / closed by the library")
	case injected:
		x.Check(conn == nil && err != nil, key("failure-not-reported"), "fault %v at op %d but Upgrade returned conn=%v err=%v", faultKind, faultAt, conn != nil, err)
		x.Check(nc.Closed > 0, key("leak-on-failure"), "Upgrade failed after hijacking (fault %v at op %d: %v) but the network connection was not closed", faultKind, faultAt, err)
	default:
		x.Check(conn != nil, key("good-upgrade-failed"), "fault-free Upgrade failed: %v", err)
		x.Check(nc.Closed == 0, key("closed-on-success"), "connection closed although Upgrade succeeded")
		x.Check(nc.WDL.IsZero(), key("deadline-left-armed"), "Upgrade succeeded but a write deadline is still armed: %v", nc.WDL)
		x.Check(nc.RDL.IsZero() || nc.RDL.Equal(preRDL), key("deadline-left-armed"), "Upgrade succeeded and left a read deadline of its own armed: %v", nc.RDL)
	}
}
