// Package wsref is an RFC 6455 §5 / RFC 7692 §7 frame codec written from the RFC text.
// It shares no code with the library under test.  The only trusted third party is
// compress/flate's inflater (used to judge compressed payloads).
package wsref

import (
	"bytes"
	"compress/flate"
	"encoding/binary"
	"errors"
	"fmt"
	"io"
	"unicode/utf8"
)

const (
	OpCont   = 0
	OpText   = 1
	OpBinary = 2
	OpClose  = 8
	OpPing   = 9
	OpPong   = 10
)

// Frame is one wire frame; Payload is the application (unmasked) payload.
type Frame struct {
	Fin, Rsv1, Rsv2, Rsv3 bool
	Opcode                byte
	Masked                bool
	Key                   [4]byte
	LenForm               int    // 0 = minimal; 7, 16, 64 force a form (encoder only); decoder records the form seen
	ClaimLen              uint64 // encoder only: when non-zero the header claims this length instead of len(Payload)
	Payload               []byte
	Off, End              int // decoder: byte offsets in the stream
}

func (f Frame) String() string {
	return fmt.Sprintf("{fin=%v rsv=%v%v%v op=%d mask=%v len=%d}", f.Fin, b2i(f.Rsv1), b2i(f.Rsv2), b2i(f.Rsv3), f.Opcode, f.Masked, len(f.Payload))
}

func b2i(b bool) int {
	if b {
		return 1
	}
	return 0
}

// Encode serialises a frame exactly as described (no validation: it can emit violations).
func Encode(f Frame) []byte {
	var b0 byte = f.Opcode & 0xf
	if f.Fin {
		b0 |= 0x80
	}
	if f.Rsv1 {
		b0 |= 0x40
	}
	if f.Rsv2 {
		b0 |= 0x20
	}
	if f.Rsv3 {
		b0 |= 0x10
	}
	n := uint64(len(f.Payload))
	if f.ClaimLen != 0 {
		n = f.ClaimLen
	}
	form := f.LenForm
	if form == 0 {
		switch {
		case n <= 125:
			form = 7
		case n <= 65535:
			form = 16
		default:
			form = 64
		}
	}
	out := []byte{b0}
	var b1 byte
	if f.Masked {
		b1 = 0x80
	}
	switch form {
	case 7:
		out = append(out, b1|byte(n))
	case 16:
		out = append(out, b1|126, byte(n>>8), byte(n))
	case 64:
		var l [8]byte
		binary.BigEndian.PutUint64(l[:], n)
		out = append(out, b1|127)
		out = append(out, l[:]...)
	}
	if f.Masked {
		out = append(out, f.Key[:]...)
		for i, c := range f.Payload {
			out = append(out, c^f.Key[i&3])
		}
	} else {
		out = append(out, f.Payload...)
	}
	return out
}

// ErrIncomplete is returned by DecodeFrame when the buffer ends inside a frame.
var ErrIncomplete = errors.New("wsref: incomplete frame")

// DecodeFrame parses one frame from b at offset off.  It performs no validation beyond
// what is needed to find the frame's extent.
func DecodeFrame(b []byte, off int) (Frame, int, error) {
	var f Frame
	p := b[off:]
	if len(p) < 2 {
		return f, off, ErrIncomplete
	}
	f.Off = off
	f.Fin = p[0]&0x80 != 0
	f.Rsv1 = p[0]&0x40 != 0
	f.Rsv2 = p[0]&0x20 != 0
	f.Rsv3 = p[0]&0x10 != 0
	f.Opcode = p[0] & 0xf
	f.Masked = p[1]&0x80 != 0
	n := uint64(p[1] & 0x7f)
	h := 2
	f.LenForm = 7
	switch n {
	case 126:
		if len(p) < 4 {
			return f, off, ErrIncomplete
		}
		n = uint64(binary.BigEndian.Uint16(p[2:]))
		h = 4
		f.LenForm = 16
	case 127:
		if len(p) < 10 {
			return f, off, ErrIncomplete
		}
		n = binary.BigEndian.Uint64(p[2:])
		h = 10
		f.LenForm = 64
	}
	if f.Masked {
		if len(p) < h+4 {
			return f, off, ErrIncomplete
		}
		copy(f.Key[:], p[h:])
		h += 4
	}
	f.ClaimLen = n
	if n > uint64(len(p)-h) {
		return f, off, ErrIncomplete
	}
	f.Payload = make([]byte, n)
	copy(f.Payload, p[h:h+int(n)])
	if f.Masked {
		for i := range f.Payload {
			f.Payload[i] ^= f.Key[i&3]
		}
	}
	f.End = off + h + int(n)
	return f, f.End, nil
}

// Message is an application-level message recovered from a frame stream.
type Message struct {
	Type       int // 1 text, 2 binary, 8/9/10 control
	Payload    []byte
	Compressed bool
	Frames     int
	FirstFrame int // index of its first frame in the frame list
	EndOff     int // stream offset after its last frame
}

// Role of the *sender* of a stream.
type Role int

const (
	Client Role = iota // frames must be masked
	Server             // frames must be unmasked
)

func (r Role) String() string {
	if r == Client {
		return "client"
	}
	return "server"
}

// StrictOpts configures DecodeStrict.
type StrictOpts struct {
	Sender       Role
	Deflate      bool // permessage-deflate negotiated
	AllowPartial bool // a trailing incomplete frame is allowed (returned as rest)
}

// Decoded is the result of DecodeStrict.
type Decoded struct {
	Frames   []Frame
	Messages []Message // data and control messages in wire order
	Rest     []byte    // trailing bytes that do not form a complete frame (AllowPartial)
}

// Data returns only the data messages.
func (d *Decoded) Data() []Message {
	var r []Message
	for _, m := range d.Messages {
		if m.Type == OpText || m.Type == OpBinary {
			r = append(r, m)
		}
	}
	return r
}

// Control returns only the control messages.
func (d *Decoded) Control() []Message {
	var r []Message
	for _, m := range d.Messages {
		if m.Type >= 8 {
			r = append(r, m)
		}
	}
	return r
}

// DecodeStrict parses a byte stream as a sequence of frames sent by opts.Sender and
// enforces every MUST of RFC 6455 §5 (and RFC 7692 §7 for RSV1).  Compressed messages
// are inflated.
func DecodeStrict(b []byte, opts StrictOpts) (*Decoded, error) {
	d := &Decoded{}
	off := 0
	var cur *Message
	var curBuf []byte
	for off < len(b) {
		f, next, err := DecodeFrame(b, off)
		if err == ErrIncomplete {
			if opts.AllowPartial {
				d.Rest = b[off:]
				break
			}
			return d, fmt.Errorf("offset %d: stream ends inside a frame", off)
		}
		idx := len(d.Frames)
		d.Frames = append(d.Frames, f)
		where := fmt.Sprintf("frame %d at offset %d %v", idx, off, f)
		if f.Rsv2 || f.Rsv3 {
			return d, fmt.Errorf("%s: RSV2/RSV3 set", where)
		}
		if (opts.Sender == Client) != f.Masked {
			return d, fmt.Errorf("%s: MASK bit wrong for a %s", where, opts.Sender)
		}
		n := uint64(len(f.Payload))
		switch f.LenForm {
		case 16:
			if n <= 125 {
				return d, fmt.Errorf("%s: non-minimal 16-bit length", where)
			}
		case 64:
			if n <= 65535 {
				return d, fmt.Errorf("%s: non-minimal 64-bit length", where)
			}
			if n>>63 != 0 {
				return d, fmt.Errorf("%s: top bit of length set", where)
			}
		}
		switch f.Opcode {
		case OpClose, OpPing, OpPong:
			if !f.Fin {
				return d, fmt.Errorf("%s: fragmented control frame", where)
			}
			if n > 125 {
				return d, fmt.Errorf("%s: control payload > 125", where)
			}
			if f.Rsv1 {
				return d, fmt.Errorf("%s: RSV1 on control frame", where)
			}
			if f.Opcode == OpClose {
				if err := CheckCloseBody(f.Payload, true); err != nil {
					return d, fmt.Errorf("%s: %v", where, err)
				}
			}
			d.Messages = append(d.Messages, Message{Type: int(f.Opcode), Payload: f.Payload, Frames: 1, FirstFrame: idx, EndOff: next})
		case OpText, OpBinary:
			if cur != nil {
				return d, fmt.Errorf("%s: new data frame inside an unfinished message", where)
			}
			if f.Rsv1 && !opts.Deflate {
				return d, fmt.Errorf("%s: RSV1 without negotiated permessage-deflate", where)
			}
			cur = &Message{Type: int(f.Opcode), Compressed: f.Rsv1, FirstFrame: idx}
			curBuf = append([]byte{}, f.Payload...)
			cur.Frames = 1
		case OpCont:
			if cur == nil {
				return d, fmt.Errorf("%s: continuation with no message in progress", where)
			}
			if f.Rsv1 {
				return d, fmt.Errorf("%s: RSV1 on continuation frame", where)
			}
			curBuf = append(curBuf, f.Payload...)
			cur.Frames++
		default:
			return d, fmt.Errorf("%s: reserved opcode", where)
		}
		if cur != nil && f.Opcode <= 2 && f.Fin {
			if cur.Compressed {
				p, err := Inflate(curBuf)
				if err != nil {
					return d, fmt.Errorf("%s: compressed message does not inflate: %v", where, err)
				}
				curBuf = p
			}
			cur.Payload = curBuf
			cur.EndOff = next
			d.Messages = append(d.Messages, *cur)
			cur, curBuf = nil, nil
		}
		off = next
	}
	if cur != nil && !opts.AllowPartial {
		return d, fmt.Errorf("stream ends inside a fragmented message")
	}
	return d, nil
}

// CheckCloseBody validates a close frame body.  sending=true applies the rules for codes
// an endpoint may put on the wire (RFC 6455 §7.4).
func CheckCloseBody(p []byte, sending bool) error {
	if len(p) == 0 {
		return nil
	}
	if len(p) == 1 {
		return errors.New("close body of 1 byte")
	}
	code := int(binary.BigEndian.Uint16(p))
	if !ValidWireCloseCode(code) {
		return fmt.Errorf("close code %d must not appear on the wire", code)
	}
	if !utf8.Valid(p[2:]) {
		return errors.New("close reason is not UTF-8")
	}
	return nil
}

// ValidWireCloseCode: codes that may appear in a close frame (RFC 6455 §7.4.1/§7.4.2 and
// the IANA registry as of RFC 6455: 1000-1003, 1007-1011, plus registered 1012-1014,
// 3000-4999).
func ValidWireCloseCode(code int) bool {
	switch {
	case code >= 1000 && code <= 1003:
		return true
	case code >= 1007 && code <= 1014:
		return true
	case code >= 3000 && code <= 4999:
		return true
	}
	return false
}

// Inflate undoes RFC 7692 §7.2.2: append 00 00 ff ff and inflate.
func Inflate(p []byte) ([]byte, error) {
	in := append(append([]byte{}, p...), 0x00, 0x00, 0xff, 0xff)
	// A final empty stored block so that the inflater terminates cleanly.
	in = append(in, 0x01, 0x00, 0x00, 0xff, 0xff)
	r := flate.NewReader(bytes.NewReader(in))
	out, err := io.ReadAll(r)
	if err != nil {
		return out, err
	}
	return out, nil
}

// Deflate compresses per RFC 7692 §7.2.1 with compress/flate at the given level
// (sync flush, strip 00 00 ff ff).
func Deflate(p []byte, level int) []byte {
	var buf bytes.Buffer
	w, err := flate.NewWriter(&buf, level)
	if err != nil {
		panic(err)
	}
	w.Write(p)
	w.Flush()
	b := buf.Bytes()
	if len(b) >= 4 && bytes.Equal(b[len(b)-4:], []byte{0, 0, 0xff, 0xff}) {
		b = b[:len(b)-4]
	} else {
		panic("wsref: no sync marker")
	}
	return b
}

// Fragment cuts payload into the given piece sizes (last piece takes the rest) and
// returns data frames.
func Fragment(op byte, payload []byte, sizes []int, masked bool, keys [][4]byte, rsv1 bool) []Frame {
	var fr []Frame
	rest := payload
	for i := 0; ; i++ {
		var piece []byte
		last := i >= len(sizes)
		if last {
			piece = rest
		} else {
			piece = rest[:sizes[i]]
			rest = rest[sizes[i]:]
		}
		f := Frame{Opcode: OpCont, Payload: piece, Masked: masked, Fin: last}
		if i == 0 {
			f.Opcode = op
			f.Rsv1 = rsv1
		}
		if masked && len(keys) > 0 {
			f.Key = keys[i%len(keys)]
		}
		fr = append(fr, f)
		if last {
			break
		}
	}
	return fr
}

// EncodeAll concatenates the encodings.
func EncodeAll(fr []Frame) []byte {
	var b []byte
	for _, f := range fr {
		b = append(b, Encode(f)...)
	}
	return b
}

// CloseBody formats a close payload.
func CloseBody(code int, reason string) []byte {
	b := []byte{byte(code >> 8), byte(code)}
	return append(b, reason...)
}

// ProtoState is the receiver-side protocol state a frame is judged in.
type ProtoState struct {
	InMessage bool // a fragmented data message is in progress
	Deflate   bool // permessage-deflate negotiated
	Sender    Role
}

// HeaderInfo is a raw frame header (the frame need not be complete or valid).
type HeaderInfo struct {
	Fin, Rsv1, Rsv2, Rsv3, Masked bool
	Opcode                        byte
	Len                           uint64 // claimed payload length
	TopBit                        bool   // 64-bit form with the most significant bit set
	CloseBody                     []byte // payload, only judged for close frames when present
	HaveBody                      bool
}

// Judge returns the RFC 6455 framing violations of a header in a state (hard), and the
// matters on which RFC 6455 framing is silent or which belong to RFC 7692 (soft).
func Judge(h HeaderInfo, st ProtoState) (hard, soft []string) {
	if h.Rsv2 {
		hard = append(hard, "RSV2")
	}
	if h.Rsv3 {
		hard = append(hard, "RSV3")
	}
	ctl := h.Opcode >= 8
	if h.Rsv1 {
		if !st.Deflate {
			hard = append(hard, "RSV1 without extension")
		} else if ctl || h.Opcode == OpCont {
			soft = append(soft, "RSV1 on control/continuation under permessage-deflate")
		}
	}
	if (st.Sender == Client) != h.Masked {
		hard = append(hard, "MASK wrong for role")
	}
	if h.TopBit {
		hard = append(hard, "length top bit")
	}
	switch h.Opcode {
	case OpClose, OpPing, OpPong:
		if !h.Fin {
			hard = append(hard, "fragmented control")
		}
		if h.Len > 125 || h.TopBit {
			hard = append(hard, "control > 125")
		}
		if h.Opcode == OpClose && h.HaveBody && len(hard) == 0 {
			p := h.CloseBody
			if len(p) == 1 {
				soft = append(soft, "1-byte close body")
			} else if len(p) >= 2 {
				code := int(binary.BigEndian.Uint16(p))
				switch {
				case code < 1000, code == 1005, code == 1006, code == 1015:
					hard = append(hard, "invalid close code")
				case code >= 1000 && code <= 1003, code >= 1007 && code <= 1011, code >= 3000 && code <= 4999:
				default: // 1004, 1012-1014, 1016-2999, >= 5000
					soft = append(soft, "reserved/unassigned close code")
				}
				if !utf8.Valid(p[2:]) {
					hard = append(hard, "close reason not UTF-8")
				}
			}
		}
	case OpText, OpBinary:
		if st.InMessage {
			hard = append(hard, "data frame inside unfinished message")
		}
	case OpCont:
		if !st.InMessage {
			hard = append(hard, "continuation without message")
		}
	default:
		hard = append(hard, "reserved opcode")
	}
	return
}
