//go:build verif

package checks

import (
	"bytes"
	"context"
	crand "crypto/rand"
	"encoding/base64"
	"fmt"
	"io"
	"net"
	"net/http"
	"net/url"
	"strings"
	"time"

	"github.com/gorilla/websocket"
	"verif.local/engine/explore"
	"verif.local/ref/hsref"
	"verif.local/ref/netsim"
)

func init() {
	Register(&Check{
		ID:          "C14",
		Technique:   "exhaustive deviation-bounded enumeration of (URL, Dialer settings, caller headers, scripted server reply) against the real Dialer over a scripted transport; the challenge key is traced to a recording random source; request judged by an independent line-level parser",
		Rule:        "default = plain ws URL, no caller headers, correct 101 reply; every dimension (URL, caller header incl. protocol-owned names in 3 spellings, Subprotocols, EnableCompression, reply status / Upgrade / Connection / Accept variant / body length / garbage / delivery in segments of 100 or 1 bytes, Dialer.ReadBufferSize 0 or 256, a second dial with a stale Accept) deviates independently up to the bound. non-trivial = a request reached the transport and a non-default choice; distinct by observation hash",
		Assumptions: []string{"crypto/rand.Reader is replaced by a recording deterministic source for the duration of an execution", "duplicate Sec-WebSocket-Accept lines are a don't-care", "net/http's response parser is trusted"},
		Serial:      false,
		Budget:      map[string]time.Duration{"quick": 100 * time.Second, "thorough": 20 * time.Minute},
		Bound:       map[string]string{"quick": "deviations <= 2", "thorough": "deviations <= 3"},
		Scenarios:   c14Scenarios,
	})
}

type randRec struct {
	pos   int
	Reads [][3]int // offset, len, epoch
	Epoch int
}

func randByte(i int) byte {
	g := uint32(i/4+7) * 2246822519
	return byte(g >> (8 * uint(i%4)))
}

func (r *randRec) Read(p []byte) (int, error) {
	for i := range p {
		p[i] = randByte(r.pos + i)
	}
	r.Reads = append(r.Reads, [3]int{r.pos, len(p), r.Epoch})
	r.pos += len(p)
	return len(p), nil
}

// windowOf returns the offset of a 16-byte window equal to raw handed out in epoch, or -1.
func (r *randRec) windowOf(raw []byte, epoch int) int {
	for _, rd := range r.Reads {
		if rd[2] != epoch {
			continue
		}
	next:
		for o := rd[0]; o+len(raw) <= rd[0]+rd[1]; o++ {
			for i := range raw {
				if randByte(o+i) != raw[i] {
					continue next
				}
			}
			return o
		}
	}
	return -1
}

var c14URLs = []string{
	"ws://example.com/path?x=1", "ws://example.com", "ws://example.com/", "ws://example.com:8080/a/b", "ws://192.0.2.1/a%20b", "ws://[::1]/p?x=1&y=2", "ws://[::1]:8080/?q=1",
	"ws://example.com/p#frag", "WS://example.com/x", "ws://example.com?q=1", "ws://EXAMPLE.com:80/x",
	// paths whose escaped form is not what the default encoder would produce, and an empty query
	"ws://example.com/a%2Fb/c", "ws://example.com/%41bc%2f", "ws://example.com/x?", "ws://example.com/a;b=c/d%3Be?k=%26&k=%3D",
	"http://example.com/", "https://example.com/", "//example.com/", "example.com/ws", "ws://user@example.com/", "ws://user:pw@example.com/", "ftp://example.com/", "",
}

type c14Hdr struct {
	name string
	h    http.Header
}

var c14Hdrs = []c14Hdr{
	{"none", nil},
	{"host-override", http.Header{"Host": {"override.example"}}},
	{"origin", http.Header{"Origin": {"http://example.com"}}},
	{"cookie+extra", http.Header{"Cookie": {"a=b"}, "X-Extra": {"1", "2"}}},
	{"lower-case-extra", http.Header{"x-lower": {"v"}}},
	{"protocol", http.Header{"Sec-Websocket-Protocol": {"callerproto"}}},
}

func init() {
	for _, base := range []string{"Upgrade", "Connection", "Sec-WebSocket-Key", "Sec-WebSocket-Version", "Sec-WebSocket-Extensions", "Sec-WebSocket-Protocol", "Host"} {
		for si, sp := range []string{http.CanonicalHeaderKey(base), base, strings.ToLower(base), strings.ToUpper(base)} {
			if si == 1 && sp == http.CanonicalHeaderKey(base) {
				continue
			}
			c14Hdrs = append(c14Hdrs, c14Hdr{"owned:" + sp, http.Header{sp: {"caller-value"}}})
		}
	}
}

var c14Status = []string{"101 Switching Protocols", "200 OK", "100 Continue", "301 Moved Permanently", "400 Bad Request", "426 Upgrade Required", "101", "201 Created"}
var c14ReplyUpg = [][]string{{"websocket"}, {"WebSocket"}, {"h2c, websocket"}, {"h2c", "websocket"}, nil, {"websockets"}, {"xwebsocket"}, {"web socket"}, {"websocket", "WebSocket"}, {"upgrade"}}
var c14ReplyConn = [][]string{{"Upgrade"}, {"upgrade"}, {"keep-alive, Upgrade"}, {"keep-alive", "Upgrade"}, nil, {"upgrades"}, {"close"}, {"Upgrade", "upgrade"}, {"websocket"}}
var c14Accept = []string{"correct", "constant-key", "altered-case", "truncated", "spaces", "absent", "empty", "key-itself", "wrong-guid"}
var c14Bodies = []int{0, 1, 1024, 1025, 5000, -5000} // negative: chunked transfer coding

func c14Scenarios(tier string) []*explore.Scenario {
	bound := 2
	if tier == "thorough" {
		bound = 3
	}
	var scs []*explore.Scenario
	for ui := range c14URLs {
		ui := ui
		scs = append(scs, &explore.Scenario{Name: fmt.Sprintf("c14/url=%d", ui), Bound: bound, Body: func(x *explore.Ctx) { c14Body(x, ui) }})
	}
	return scs
}

type c14Dial struct {
	nc      *netsim.Conn
	hooks   int
	addr    string
	conn    *websocket.Conn
	resp    *http.Response
	err     error
	reqHead *hsref.Head
	key     string
	reply   []byte
}

func c14Body(x *explore.Ctx, ui int) {
	rec := &randRec{}
	old := crand.Reader
	crand.Reader = rec
	defer func() { crand.Reader = old }()

	urlStr := c14URLs[ui]
	hv := c14Hdrs[x.Choose(len(c14Hdrs), "requestHeader")]
	// one dimension: what is requested and what the reply selects (so that "requested, echoed, but the
	// reply is otherwise invalid" costs two deviations)
	var subp []string
	replyProto := ""
	switch x.Choose(6, "Dialer.Subprotocols/reply-Protocol") {
	case 1:
		subp = []string{"chat", "superchat"}
	case 2:
		subp, replyProto = []string{"chat", "superchat"}, "chat"
	case 3:
		subp, replyProto = []string{"chat", "superchat"}, "superchat"
	case 4:
		subp, replyProto = []string{"chat", "superchat"}, "other"
	case 5:
		replyProto = "chat"
	}
	enableComp := x.Choose(2, "Dialer.EnableCompression") == 1
	status := c14Status[x.Choose(len(c14Status), "reply-status")]
	rUpg := c14ReplyUpg[x.Choose(len(c14ReplyUpg), "reply-Upgrade")]
	rConn := c14ReplyConn[x.Choose(len(c14ReplyConn), "reply-Connection")]
	acc := c14Accept[x.Choose(len(c14Accept), "reply-Accept")]
	body := c14Bodies[x.Choose(len(c14Bodies), "reply-body")]
	garbage := x.Choose(4, "reply-garbage") // 0 none, 1 not HTTP, 2 EOF before reply, 3 truncated head
	twoDials := x.Choose(2, "second-dial-with-stale-accept") == 1
	// how the reply reaches the client: in one piece, or in segments of 100 bytes / 1 byte; with the default or a
	// small read buffer (the capture of the body must not depend on what happens to be buffered)
	// (free dimension: enumerated completely, so that it combines with two deviations of the reply)
	dv := x.Pick(4, "reply-delivery(whole|100-byte segments|1-byte segments|whole with ReadBufferSize 256)")
	delivery, readBuf := dv%3, []int{0, 256}[dv/3]
	key := func(what string) string { return "C14:" + what }

	var prevKey string
	dial := func(epoch int, stale bool) *c14Dial {
		rec.Epoch = epoch
		d := &c14Dial{nc: netsim.NewConn(nil)}
		switch delivery {
		case 1:
			d.nc.Chunk = netsim.ChunkFixed(100)
		case 2:
			d.nc.Chunk = netsim.ChunkFixed(1)
		}
		d.nc.Extra = func(c *netsim.Conn) []byte {
			if d.reply != nil {
				return nil
			}
			i := bytes.Index(c.Out, []byte("\r\n\r\n"))
			if i < 0 {
				return nil
			}
			d.reqHead = hsref.ParseHead(c.Out)
			if ks := d.reqHead.Get("Sec-WebSocket-Key"); len(ks) > 0 {
				d.key = ks[0]
			}
			var b bytes.Buffer
			switch garbage {
			case 1:
				d.reply = []byte("SSH-2.0-OpenSSH_8.9\r\n\r\n")
				return d.reply
			case 2:
				d.reply = []byte{}
				return nil
			}
			fmt.Fprintf(&b, "HTTP/1.1 %s\r\n", status)
			for _, v := range rUpg {
				fmt.Fprintf(&b, "Upgrade: %s\r\n", v)
			}
			for _, v := range rConn {
				fmt.Fprintf(&b, "Connection: %s\r\n", v)
			}
			a := hsref.AcceptKey(d.key)
			if stale {
				a = hsref.AcceptKey(prevKey)
			}
			switch acc {
			case "constant-key":
				a = hsref.AcceptKey("dGhlIHNhbXBsZSBub25jZQ==")
			case "altered-case":
				a = swapCase(a)
			case "truncated":
				a = a[:len(a)-2]
			case "spaces":
				a = "  " + a + " \t"
			case "empty":
				a = ""
			case "key-itself":
				a = d.key
			case "wrong-guid":
				a = hsref.AcceptKey(d.key + "x")
			}
			if acc != "absent" {
				fmt.Fprintf(&b, "Sec-WebSocket-Accept: %s\r\n", a)
			}
			if enableComp {
				fmt.Fprintf(&b, "Sec-WebSocket-Extensions: permessage-deflate; server_no_context_takeover; client_no_context_takeover\r\n")
			}
			if replyProto != "" {
				fmt.Fprintf(&b, "Sec-WebSocket-Protocol: %s\r\n", replyProto)
			}
			fmt.Fprintf(&b, "X-Reply: yes\r\n")
			hasBody := !strings.HasPrefix(status, "101") && !strings.HasPrefix(status, "100")
			if strings.HasPrefix(status, "301") {
				fmt.Fprintf(&b, "Location: ws://elsewhere.example/\r\n")
			}
			if hasBody && body >= 0 {
				fmt.Fprintf(&b, "Content-Length: %d\r\n", body)
			} else if hasBody {
				fmt.Fprintf(&b, "Transfer-Encoding: chunked\r\n")
			}
			b.WriteString("\r\n")
			if hasBody && body >= 0 {
				b.Write(Pattern(4, body))
			} else if hasBody {
				p := Pattern(4, -body)
				for len(p) > 0 {
					k := min(len(p), 700)
					fmt.Fprintf(&b, "%x\r\n%s\r\n", k, p[:k])
					p = p[k:]
				}
				b.WriteString("0\r\n\r\n")
			}
			d.reply = b.Bytes()
			if garbage == 3 {
				d.reply = d.reply[:len(d.reply)/2]
			}
			return d.reply
		}
		dl := &websocket.Dialer{Subprotocols: subp, EnableCompression: enableComp, ReadBufferSize: readBuf,
			NetDialContext: func(ctx context.Context, network, addr string) (net.Conn, error) {
				d.hooks++
				d.addr = addr
				return d.nc, nil
			}}
		d.conn, d.resp, d.err = dl.Dial(urlStr, hv.h)
		return d
	}
	dials := []*c14Dial{dial(0, false)}
	if twoDials {
		prevKey = dials[0].key
		dials = append(dials, dial(1, true))
	}
	usedWindows := map[int]bool{}
	for di, d := range dials {
		stale := di == 1
		x.Obs("dial %d: conn=%v err=%v resp=%v hooks=%d wrote=%d", di, d.conn != nil, d.err, respStatus(d.resp), d.hooks, len(d.nc.Out))
		x.Check((d.conn == nil) == (d.err != nil), key("conn-xor-err"), "Dial returned conn=%v err=%v", d.conn != nil, d.err)
		// ---- URL validity
		u, perr := url.Parse(urlStr)
		schemeOK := perr == nil && (u.Scheme == "ws" || u.Scheme == "wss")
		hasUser := perr == nil && u.User != nil
		if !schemeOK || hasUser {
			x.Check(d.conn == nil && d.err != nil, key("bad-url-accepted"), "Dial(%q) did not fail", urlStr)
			x.Check(d.hooks == 0 && len(d.nc.Ops) == 0, key("bad-url-network-activity"), "Dial(%q) refused but caused network activity (dial hook calls %d, transport ops %d)", urlStr, d.hooks, len(d.nc.Ops))
			continue
		}
		if d.hooks == 0 {
			// refused before dialing: only legitimate for caller headers the library owns
			x.Check(strings.HasPrefix(hv.name, "owned:") || hv.name == "protocol", key("refused-without-reason"), "Dial failed before any network activity: %v (headers %s)", d.err, hv.name)
			x.Check(d.conn == nil, key("conn-without-dial"), "connection returned without dialing")
			continue
		}
		x.NonTrivial()
		// ---- the request
		x.Check(d.reqHead != nil, key("no-request"), "no complete request head was written before reading the reply (wrote %q)", clip(d.nc.Out))
		rh := d.reqHead
		x.Check(len(rh.Problems) == 0, key("request-malformed"), "request head malformed: %v", rh.Problems)
		wantURI := u.EscapedPath()
		if wantURI == "" {
			wantURI = "/"
		}
		if u.RawQuery != "" || u.ForceQuery {
			wantURI += "?" + u.RawQuery
		}
		x.Check(rh.StartLine == "GET "+wantURI+" HTTP/1.1", key("request-line"), "request line %q, want %q", rh.StartLine, "GET "+wantURI+" HTTP/1.1")
		wantHost := u.Host
		if hv.name == "host-override" {
			wantHost = "override.example"
		} else if strings.EqualFold(hv.name, "owned:host") {
			wantHost = "caller-value"
		}
		hosts := rh.Get("Host")
		x.Check(len(hosts) == 1 && hosts[0] == wantHost, key("host-header"), "Host header %q, want exactly one %q", hosts, wantHost)
		wantAddr := u.Host
		if u.Port() == "" {
			wantAddr = u.Host + ":80"
		}
		x.Check(d.addr == wantAddr, key("dial-address"), "dialed %q, want %q", d.addr, wantAddr)
		single := func(name, want string, fold bool) {
			vs := rh.Get(name)
			ok := len(vs) == 1 && (vs[0] == want || fold && strings.EqualFold(vs[0], want))
			x.Check(ok, key("request-header:"+name), "request has %s: %q, want exactly one %q (caller headers: %s)", name, vs, want, hv.name)
		}
		single("Upgrade", "websocket", true)
		single("Connection", "Upgrade", true)
		single("Sec-WebSocket-Version", "13", false)
		keys := rh.Get("Sec-WebSocket-Key")
		x.Check(len(keys) == 1, key("request-header:Sec-WebSocket-Key"), "request has %d Sec-WebSocket-Key headers: %q (caller headers: %s)", len(keys), keys, hv.name)
		raw, berr := base64.StdEncoding.DecodeString(keys[0])
		x.Check(berr == nil && len(raw) == 16, key("challenge-key-form"), "challenge key %q is not base64 of 16 bytes (caller headers: %s)", keys[0], hv.name)
		o := rec.windowOf(raw, di)
		x.Check(o >= 0, key("challenge-key-not-fresh"), "challenge key %q is not a 16-byte window the random source handed out during this dial (caller headers: %s)", keys[0], hv.name)
		for i := 0; i < 16; i++ {
			x.Check(!usedWindows[o+i], key("challenge-key-reused"), "challenge key reuses random bytes of an earlier dial")
			usedWindows[o+i] = true
		}
		protoWant := ""
		if len(subp) > 0 {
			protoWant = "chat, superchat"
		} else if hv.name == "protocol" {
			protoWant = "callerproto"
		} else if strings.EqualFold(hv.name, "owned:sec-websocket-protocol") {
			protoWant = "caller-value" // not owned by the library unless Dialer.Subprotocols is set
		}
		pv := rh.Get("Sec-WebSocket-Protocol")
		if protoWant == "" {
			x.Check(len(pv) == 0, key("request-header:Sec-WebSocket-Protocol"), "request offers subprotocols %q, none configured (caller headers: %s)", pv, hv.name)
		} else {
			toks, _ := hsref.TokenList(pv)
			wt, _ := hsref.TokenList([]string{protoWant})
			x.Check(len(pv) == 1 && fmt.Sprint(toks) == fmt.Sprint(wt), key("request-header:Sec-WebSocket-Protocol"), "request offers subprotocols %q, want %q (caller headers: %s)", pv, protoWant, hv.name)
		}
		ev := rh.Get("Sec-WebSocket-Extensions")
		exts, _ := hsref.ParseExtensions(ev)
		offers := false
		for _, e := range exts {
			if e.Name == "permessage-deflate" {
				offers = true
			}
		}
		x.Check(offers == enableComp && (enableComp || len(ev) == 0), key("request-header:Sec-WebSocket-Extensions"), "extension offer %q with EnableCompression=%v (caller headers: %s)", ev, enableComp, hv.name)
		// caller extras present
		switch hv.name {
		case "origin":
			x.Check(fmt.Sprint(rh.Get("Origin")) == "[http://example.com]", key("caller-header-lost"), "Origin header %q", rh.Get("Origin"))
		case "cookie+extra":
			x.Check(fmt.Sprint(rh.Get("Cookie")) == "[a=b]" && fmt.Sprint(rh.Get("X-Extra")) == "[1 2]", key("caller-header-lost"), "Cookie %q X-Extra %q", rh.Get("Cookie"), rh.Get("X-Extra"))
		case "lower-case-extra":
			x.Check(fmt.Sprint(rh.Get("x-lower")) == "[v]", key("caller-header-lost"), "x-lower %q", rh.Get("x-lower"))
		}
		// ---- the verdict on the reply
		if garbage != 0 {
			x.Check(d.conn == nil, key("garbage-accepted"), "connection returned for an unparsable reply")
			continue
		}
		hasUpg, _ := hsref.ContainsToken(rUpg, "websocket")
		hasConn, _ := hsref.ContainsToken(rConn, "upgrade")
		accOK := (acc == "correct" || acc == "spaces") && !stale
		statusOK := strings.HasPrefix(status, "101")
		want := statusOK && hasUpg && hasConn && accOK
		// "only if": a client may be stricter than necessary about unusual-but-valid replies
		// (extra tokens, repeated header lines); the canonical reply must be accepted
		canonical := len(rUpg) == 1 && len(rConn) == 1 && strings.EqualFold(rUpg[0], "websocket") && strings.EqualFold(rConn[0], "upgrade")
		// a reply that selects a subprotocol the client did not request is not one the property
		// obliges the client to accept (RFC 6455 §4.1 tells it to fail the connection)
		protoRequested := replyProto == ""
		for _, sp := range subp {
			if sp == replyProto {
				protoRequested = true
			}
		}
		if want && canonical && protoRequested {
			x.Check(d.conn != nil, key("good-reply-rejected"), "reply proving acceptance rejected: %v", d.err)
		} else if want {
			x.Check(d.conn != nil || d.err != nil, key("conn-xor-err"), "neither connection nor error")
		} else {
			x.Check(d.conn == nil, key("bad-reply-accepted:"+badWhy(statusOK, hasUpg, hasConn, accOK, stale, acc)), "Dial returned a connection although status=%q Upgrade=%q Connection=%q Accept=%s stale=%v", status, rUpg, rConn, acc, stale)
			x.Check(d.err == websocket.ErrBadHandshake, key("bad-reply-error"), "bad reply produced %v, want ErrBadHandshake", d.err)
			x.Check(d.resp != nil, key("bad-reply-no-response"), "ErrBadHandshake without the response")
			x.Check(d.resp.Status == status || strings.HasPrefix(status, fmt.Sprint(d.resp.StatusCode)), key("bad-reply-response-status"), "response status %q, server sent %q", d.resp.Status, status)
			x.Check(d.resp.Header.Get("X-Reply") == "yes", key("bad-reply-response-headers"), "response headers lost: %v", d.resp.Header)
			if !statusOK && !strings.HasPrefix(status, "100") {
				got, _ := io.ReadAll(d.resp.Body)
				wantBody := Pattern(4, max(body, -body))
				if len(wantBody) > 1024 {
					wantBody = wantBody[:1024]
				}
				x.Check(bytes.Equal(got, wantBody), key("bad-reply-response-body"), "response body has %d bytes %s, want the first %d bytes the server sent", len(got), short(got), len(wantBody))
			}
		}
	}
}

func badWhy(statusOK, hasUpg, hasConn, accOK, stale bool, acc string) string {
	var w []string
	if !statusOK {
		w = append(w, "status")
	}
	if !hasUpg {
		w = append(w, "upgrade")
	}
	if !hasConn {
		w = append(w, "connection")
	}
	if !accOK {
		if stale {
			w = append(w, "stale-accept")
		} else {
			w = append(w, "accept-"+acc)
		}
	}
	return strings.Join(w, "+")
}

func respStatus(r *http.Response) string {
	if r == nil {
		return "nil"
	}
	return r.Status
}

func swapCase(s string) string {
	b := []byte(s)
	for i, c := range b {
		switch {
		case c >= 'a' && c <= 'z':
			b[i] = c - 32
		case c >= 'A' && c <= 'Z':
			b[i] = c + 32
		}
	}
	return string(b)
}
