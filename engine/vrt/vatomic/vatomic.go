// Package vatomic stands in for package sync/atomic inside the instrumented copy of the package
// under test.  Every operation is preceded by a scheduling point (an atomic operation is a place
// where the relative order of two threads is observable) and then performed on the real atomic,
// so that ThreadSanitizer records exactly the happens-before edges the program itself establishes.
package vatomic

import (
	"sync/atomic"
	"unsafe"

	"verif.local/engine/vrt"
)

func point(what string) {
	if s := vrt.Active; s != nil && s.CurID() >= 0 {
		s.Point(what, nil)
	}
}

type Bool struct{ v atomic.Bool }

func (x *Bool) Load() bool         { point("atomic.Load"); return x.v.Load() }
func (x *Bool) Store(val bool)     { point("atomic.Store"); x.v.Store(val) }
func (x *Bool) Swap(new bool) bool { point("atomic.Swap"); return x.v.Swap(new) }
func (x *Bool) CompareAndSwap(old, new bool) bool {
	point("atomic.CAS")
	return x.v.CompareAndSwap(old, new)
}

type Int32 struct{ v atomic.Int32 }

func (x *Int32) Load() int32          { point("atomic.Load"); return x.v.Load() }
func (x *Int32) Store(val int32)      { point("atomic.Store"); x.v.Store(val) }
func (x *Int32) Swap(new int32) int32 { point("atomic.Swap"); return x.v.Swap(new) }
func (x *Int32) Add(d int32) int32    { point("atomic.Add"); return x.v.Add(d) }
func (x *Int32) CompareAndSwap(old, new int32) bool {
	point("atomic.CAS")
	return x.v.CompareAndSwap(old, new)
}

type Int64 struct{ v atomic.Int64 }

func (x *Int64) Load() int64          { point("atomic.Load"); return x.v.Load() }
func (x *Int64) Store(val int64)      { point("atomic.Store"); x.v.Store(val) }
func (x *Int64) Swap(new int64) int64 { point("atomic.Swap"); return x.v.Swap(new) }
func (x *Int64) Add(d int64) int64    { point("atomic.Add"); return x.v.Add(d) }
func (x *Int64) CompareAndSwap(old, new int64) bool {
	point("atomic.CAS")
	return x.v.CompareAndSwap(old, new)
}

type Uint32 struct{ v atomic.Uint32 }

func (x *Uint32) Load() uint32           { point("atomic.Load"); return x.v.Load() }
func (x *Uint32) Store(val uint32)       { point("atomic.Store"); x.v.Store(val) }
func (x *Uint32) Swap(new uint32) uint32 { point("atomic.Swap"); return x.v.Swap(new) }
func (x *Uint32) Add(d uint32) uint32    { point("atomic.Add"); return x.v.Add(d) }
func (x *Uint32) CompareAndSwap(old, new uint32) bool {
	point("atomic.CAS")
	return x.v.CompareAndSwap(old, new)
}

type Uint64 struct{ v atomic.Uint64 }

func (x *Uint64) Load() uint64           { point("atomic.Load"); return x.v.Load() }
func (x *Uint64) Store(val uint64)       { point("atomic.Store"); x.v.Store(val) }
func (x *Uint64) Swap(new uint64) uint64 { point("atomic.Swap"); return x.v.Swap(new) }
func (x *Uint64) Add(d uint64) uint64    { point("atomic.Add"); return x.v.Add(d) }
func (x *Uint64) CompareAndSwap(old, new uint64) bool {
	point("atomic.CAS")
	return x.v.CompareAndSwap(old, new)
}

type Uintptr struct{ v atomic.Uintptr }

func (x *Uintptr) Load() uintptr            { point("atomic.Load"); return x.v.Load() }
func (x *Uintptr) Store(val uintptr)        { point("atomic.Store"); x.v.Store(val) }
func (x *Uintptr) Swap(new uintptr) uintptr { point("atomic.Swap"); return x.v.Swap(new) }
func (x *Uintptr) Add(d uintptr) uintptr    { point("atomic.Add"); return x.v.Add(d) }
func (x *Uintptr) CompareAndSwap(old, new uintptr) bool {
	point("atomic.CAS")
	return x.v.CompareAndSwap(old, new)
}

type Pointer[T any] struct{ v atomic.Pointer[T] }

func (x *Pointer[T]) Load() *T       { point("atomic.Load"); return x.v.Load() }
func (x *Pointer[T]) Store(val *T)   { point("atomic.Store"); x.v.Store(val) }
func (x *Pointer[T]) Swap(new *T) *T { point("atomic.Swap"); return x.v.Swap(new) }
func (x *Pointer[T]) CompareAndSwap(old, new *T) bool {
	point("atomic.CAS")
	return x.v.CompareAndSwap(old, new)
}

type Value struct{ v atomic.Value }

func (x *Value) Load() any        { point("atomic.Load"); return x.v.Load() }
func (x *Value) Store(val any)    { point("atomic.Store"); x.v.Store(val) }
func (x *Value) Swap(new any) any { point("atomic.Swap"); return x.v.Swap(new) }
func (x *Value) CompareAndSwap(old, new any) bool {
	point("atomic.CAS")
	return x.v.CompareAndSwap(old, new)
}

func LoadInt32(a *int32) int32       { point("atomic.Load"); return atomic.LoadInt32(a) }
func LoadInt64(a *int64) int64       { point("atomic.Load"); return atomic.LoadInt64(a) }
func LoadUint32(a *uint32) uint32    { point("atomic.Load"); return atomic.LoadUint32(a) }
func LoadUint64(a *uint64) uint64    { point("atomic.Load"); return atomic.LoadUint64(a) }
func LoadUintptr(a *uintptr) uintptr { point("atomic.Load"); return atomic.LoadUintptr(a) }
func LoadPointer(a *unsafe.Pointer) unsafe.Pointer {
	point("atomic.Load")
	return atomic.LoadPointer(a)
}
func StoreInt32(a *int32, v int32)       { point("atomic.Store"); atomic.StoreInt32(a, v) }
func StoreInt64(a *int64, v int64)       { point("atomic.Store"); atomic.StoreInt64(a, v) }
func StoreUint32(a *uint32, v uint32)    { point("atomic.Store"); atomic.StoreUint32(a, v) }
func StoreUint64(a *uint64, v uint64)    { point("atomic.Store"); atomic.StoreUint64(a, v) }
func StoreUintptr(a *uintptr, v uintptr) { point("atomic.Store"); atomic.StoreUintptr(a, v) }
func StorePointer(a *unsafe.Pointer, v unsafe.Pointer) {
	point("atomic.Store")
	atomic.StorePointer(a, v)
}
func AddInt32(a *int32, d int32) int32      { point("atomic.Add"); return atomic.AddInt32(a, d) }
func AddInt64(a *int64, d int64) int64      { point("atomic.Add"); return atomic.AddInt64(a, d) }
func AddUint32(a *uint32, d uint32) uint32  { point("atomic.Add"); return atomic.AddUint32(a, d) }
func AddUint64(a *uint64, d uint64) uint64  { point("atomic.Add"); return atomic.AddUint64(a, d) }
func SwapInt32(a *int32, v int32) int32     { point("atomic.Swap"); return atomic.SwapInt32(a, v) }
func SwapInt64(a *int64, v int64) int64     { point("atomic.Swap"); return atomic.SwapInt64(a, v) }
func SwapUint32(a *uint32, v uint32) uint32 { point("atomic.Swap"); return atomic.SwapUint32(a, v) }
func SwapUint64(a *uint64, v uint64) uint64 { point("atomic.Swap"); return atomic.SwapUint64(a, v) }
func CompareAndSwapInt32(a *int32, o, n int32) bool {
	point("atomic.CAS")
	return atomic.CompareAndSwapInt32(a, o, n)
}
func CompareAndSwapInt64(a *int64, o, n int64) bool {
	point("atomic.CAS")
	return atomic.CompareAndSwapInt64(a, o, n)
}
func CompareAndSwapUint32(a *uint32, o, n uint32) bool {
	point("atomic.CAS")
	return atomic.CompareAndSwapUint32(a, o, n)
}
func CompareAndSwapUint64(a *uint64, o, n uint64) bool {
	point("atomic.CAS")
	return atomic.CompareAndSwapUint64(a, o, n)
}
func CompareAndSwapPointer(a *unsafe.Pointer, o, n unsafe.Pointer) bool {
	point("atomic.CAS")
	return atomic.CompareAndSwapPointer(a, o, n)
}
