//go:build verif

package checks

import (
	"fmt"
	"strings"
	"time"

	"verif.local/engine/explore"
	"verif.local/ref/netsim"
)

func init() {
	Register(&Check{
		ID:          "C20",
		Technique:   "exhaustive exploration of write programs x transport fault positions x invalid requests on a real Conn with an instrumented, poisoning BufferPool; Get/Put log judged against the message life cycle",
		Rule:        "same program/fault space as C10 with the pool forced on; the pool logs every Get/Put stamped with the API call and transport op in progress, hands the most recently returned buffer to the next taker and fills returned buffers with 0xDD. non-trivial = at least one Get and a non-default choice; distinct by observation hash",
		Assumptions: []string{"sequential part: one connection per pool (sharing under all interleavings is explored by the scheduler scenarios when built)"},
		Budget:      map[string]time.Duration{"quick": 100 * time.Second, "thorough": 25 * time.Minute},
		Bound:       map[string]string{"quick": "deviations <= 2 (a fault is one deviation), <= 2 messages", "thorough": "deviations <= 3, <= 3 messages"},
		Scenarios:   func(tier string) []*explore.Scenario { return wScenarios("c20", tier, c20Body) },
	})
}

func startsMessage(name string) bool {
	n := strings.TrimPrefix(name, "invalid:")
	return strings.HasPrefix(n, "NextWriter") || strings.HasPrefix(n, "WriteMessage") || strings.HasPrefix(n, "WriteJSON")
}

func usesNoPooledBuffer(name string) bool {
	n := strings.TrimPrefix(name, "invalid:")
	return strings.HasPrefix(n, "WriteControl") || strings.HasPrefix(n, "WritePreparedMessage") || strings.HasPrefix(n, "NewPreparedMessage")
}

func c20Oracle(x *explore.Ctx, e *WEnv, fs *faultState, key func(string) string) {
	p := e.Pool
	if p == nil {
		panic("c20: no pool")
	}
	x.Obs("pool events %d", len(p.Events))
	// 1. (Get Put)* with the same buffer, never two Puts in a row
	out := 0
	lastGet := 0
	for i, ev := range p.Events {
		switch ev.Op {
		case "get":
			x.Check(out == 0, key("double-get"), "pool event %d: Get while a buffer is already checked out", i)
			out++
			lastGet = ev.Buf
			name := "?"
			if ev.Call < len(e.Calls) {
				name = e.Calls[ev.Call].Name
			}
			x.Check(ev.Call < len(e.Calls) && startsMessage(name), key("get-outside-message-start"), "pool event %d: Get during %q, which does not start a message", i, name)
		case "put":
			x.Check(out == 1, key("double-put"), "pool event %d: Put without a matching Get", i)
			out--
			if lastGet != 0 {
				x.Check(ev.Buf == lastGet, key("put-other-buffer"), "pool event %d: Put returns buffer #%d, the connection had taken #%d", i, ev.Buf, lastGet)
			}
		}
	}
	// 2. after every API call: outstanding == 1 iff a message writer is open
	outAfter := func(callIdx int) int {
		n := 0
		for _, ev := range p.Events {
			if ev.Call <= callIdx {
				if ev.Op == "get" {
					n++
				} else {
					n--
				}
			}
		}
		return n
	}
	open := false
	for ci, ac := range e.Calls {
		n := strings.TrimPrefix(ac.Name, "invalid:")
		switch {
		case usesNoPooledBuffer(n):
		case strings.HasPrefix(n, "NextWriter("):
			open = ac.Err == nil
		case strings.HasPrefix(n, "Write(") || strings.HasPrefix(n, "WriteString(") || strings.HasPrefix(n, "io.Copy("):
			open = open && ac.Err == nil
		default:
			open = false
		}
		want := 0
		if open {
			want = 1
		}
		got := outAfter(ci)
		x.Check(got == want, key("held-between-messages"), "after call %d (%s -> %v): %d pool buffers checked out, want %d", ci, ac.Name, ac.Err, got, want)
	}
	// 3. every transport Write of a message writer happens while exactly one buffer is checked out
	for ci, ac := range e.Calls {
		if usesNoPooledBuffer(ac.Name) {
			continue
		}
		for oi := ac.Op0; oi < ac.Op1; oi++ {
			if e.NC.Ops[oi].Kind != netsim.OpWrite {
				continue
			}
			n := 0
			for _, ev := range p.Events {
				if ev.OpIdx <= oi {
					if ev.Op == "get" {
						n++
					} else {
						n--
					}
				}
			}
			x.Check(n == 1, key("write-without-buffer"), "call %d (%s): transport Write (op %d) issued while %d pool buffers are checked out: the frame buffer is not owned", ci, ac.Name, oi, n)
		}
	}
	_ = fmt.Sprint
}
