#!/bin/bash
# Runs every quick check against every property-preserving change in mutants/benign: none may raise an alarm.
export GOFLAGS=-mod=mod GOPROXY=off GOSUMDB=off GOTOOLCHAIN=local
cd "$(dirname "$0")/.." || exit 2
ids="${IDS:-C01 C02 C03 C04 C05 C06 C07 C08 C09 C10 C11 C12 C13 C14 C15 C16 C17 C18 C19 C20}"
rc=0
for p in mutants/benign/${1:-*}.diff; do
  S=$(mktemp -d /tmp/benign.XXXXXX)
  abs="$(readlink -f "$p")"
  git -C /repo archive HEAD | tar -x -C "$S"
  ( cd "$S" && git init -q && git apply "$abs" ) || { echo "PATCH-FAILED $p"; rm -rf "$S"; continue; }
  ( cd "$S" && go build ./... ) || { echo "BUILD-FAILED $p"; rm -rf "$S"; continue; }
  for id in $ids; do
    out=$(VERIF_REPO="$S" VERIF_SCRATCH_OUT="$S/out" ./run "$id" quick 2>&1); st=$?
    if [ $st -ne 0 ]; then echo "ALARM $(basename $p) $id (exit $st): $(echo "$out" | grep -m1 'key:') $(echo "$out" | grep -m1 -E 'what:|INFRA' | cut -c1-200)"; rc=1; else echo "quiet $(basename $p) $id"; fi
  done
  rm -rf "$S"
done
exit $rc
