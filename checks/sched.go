//go:build verif

package checks

import (
	"fmt"
	"time"

	"verif.local/engine/explore"
	"verif.local/engine/vrt"
	"verif.local/ref/netsim"
)

// Shared bookkeeping of a scheduled execution.  Only one thread runs at a time (the baton
// serialises execution), so no synchronisation is needed - and none must be used, because it
// would add happens-before edges that hide races of the code under test in the race flavour.
// All accessors are //go:norace.

type evKind int

const (
	evCallBegin evKind = iota
	evCallEnd
	evWriteBegin
	evWriteEnd
	evClock
	evOther
)

type schedEvent struct {
	Seq    int
	Kind   evKind
	Thread string
	Call   int    // index into calls (evCallBegin / evCallEnd)
	Conn   string // transport events
	Write  int    // index of the transport Write
	What   string
}

type schedCall struct {
	Thread     string
	Name       string
	Begin, End int // sequence numbers (-1: not finished)
	Err        error
	Timeout    bool
	ClockAtEnd time.Duration
}

type schedLog struct {
	s      *vrt.Sched
	x      *explore.Ctx
	events []schedEvent
	calls  []schedCall
}

//go:norace
func (l *schedLog) add(e schedEvent) int {
	e.Seq = len(l.events)
	l.events = append(l.events, e)
	return e.Seq
}

// call runs an API call on behalf of the current thread and records begin/end.
//
//go:norace
func (l *schedLog) call(name string, f func() error) error {
	th := l.s.CurName()
	idx := l.beginCall(th, name)
	err := f()
	l.endCall(idx, err)
	return err
}

//go:norace
func (l *schedLog) beginCall(th, name string) int {
	idx := len(l.calls)
	l.calls = append(l.calls, schedCall{Thread: th, Name: name, End: -1})
	l.calls[idx].Begin = l.add(schedEvent{Kind: evCallBegin, Thread: th, Call: idx, What: name})
	return idx
}

//go:norace
func (l *schedLog) endCall(idx int, err error) {
	c := &l.calls[idx]
	c.Err = err
	if ne, ok := err.(interface{ Timeout() bool }); ok && ne.Timeout() {
		c.Timeout = true
	}
	c.End = l.add(schedEvent{Kind: evCallEnd, Thread: c.Thread, Call: idx, What: c.Name})
}

// newSched creates a scheduler whose decisions are explorer choices.
func newSched(x *explore.Ctx) (*vrt.Sched, *schedLog) { return newSchedOpt(x, true) }

// newSchedOpt: with freeForced=false a forced switch (the running thread blocked or ended)
// takes the lowest enabled thread by default and any other choice costs one deviation; this
// keeps harnesses with many threads tractable (plain CHESS treats forced switches as free).
func newSchedOpt(x *explore.Ctx, freeForced bool) (*vrt.Sched, *schedLog) {
	s := vrt.New(func(n int, label string, free bool) int {
		if free && (freeForced || label == "select-case") {
			return x.Pick(n, label)
		}
		return x.Choose(n, label)
	})
	s.Verbose = x.Verbose
	return s, &schedLog{s: s, x: x}
}

// hookTransport turns the transport operations of nc into scheduling points and log events.
func hookTransport(l *schedLog, nc *netsim.Conn, name string) {
	nc.Name = name
	nc.Hook = func(c *netsim.Conn, phase string, op *netsim.Op) { transportHook(l, c, phase, op) }
}

//go:norace
func transportHook(l *schedLog, c *netsim.Conn, phase string, op *netsim.Op) {
	s := l.s
	if vrt.Active != s || s.CurID() < 0 {
		return
	}
	switch {
	case phase == "pre" && op.Kind == netsim.OpWrite:
		s.Point("transport.Write-begin("+c.Name+")", nil)
		l.add(schedEvent{Kind: evWriteBegin, Thread: s.CurName(), Conn: c.Name, Write: len(c.Writes)})
	case phase == "post" && op.Kind == netsim.OpWrite:
		// the writer is "inside the transport" between the two points: others may run meanwhile
		s.Point("transport.Write-end("+c.Name+")", nil)
		l.add(schedEvent{Kind: evWriteEnd, Thread: s.CurName(), Conn: c.Name, Write: len(c.Writes) - 1})
	case phase == "pre":
		s.Point(fmt.Sprintf("transport.%v(%s)", op.Kind, c.Name), nil)
	}
}
