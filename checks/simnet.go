//go:build verif

package checks

import (
	"context"
	"crypto/tls"
	"fmt"
	"net"
	"net/http"
	"net/url"
	"strings"
	"sync"
	"time"

	"github.com/gorilla/websocket"
	"verif.local/ref/netsim"
)

// simNet is an in-memory network: dial hooks hand out the logged client end of a Pipe whose
// other end is served by an in-process peer chosen by the dialed address.
type simNet struct {
	mu     sync.Mutex
	peers  map[string]func(net.Conn)
	Conns  []*netsim.Logged
	Dials  []string // "hook addr"
	wg     sync.WaitGroup
	Decide func(l *netsim.Logged, kind netsim.OpKind, index int) netsim.Fault
	Log    *netsim.PeerLog
	lns    []net.Listener
}

// listen serves a peer on a loopback TCP port (cells in which no dial hook is configured use
// the real network stack, as the repository's own tests do).
func (n *simNet) listen(serve func(net.Conn)) string {
	ln, err := net.Listen("tcp", "127.0.0.1:0")
	if err != nil {
		panic("simnet: cannot listen on loopback: " + err.Error())
	}
	n.lns = append(n.lns, ln)
	go func() {
		for {
			c, err := ln.Accept()
			if err != nil {
				return
			}
			n.wg.Add(1)
			go func() {
				defer n.wg.Done()
				c.SetDeadline(time.Now().Add(10 * time.Second)) // hang guard only
				serve(c)
			}()
		}
	}()
	return ln.Addr().String()
}

func newSimNet() *simNet {
	return &simNet{peers: map[string]func(net.Conn){}, Log: &netsim.PeerLog{}}
}

func (n *simNet) dial(hook, addr string) (net.Conn, error) {
	n.mu.Lock()
	n.Dials = append(n.Dials, hook+" "+addr)
	serve := n.peers[addr]
	idx := len(n.Conns)
	n.mu.Unlock()
	if serve == nil {
		n.Log.Add("net: dial to unknown address %s", addr)
		return nil, fmt.Errorf("simnet: connection refused: %s", addr)
	}
	a, b := netsim.NewPipe(fmt.Sprintf("conn%d(%s)", idx, addr))
	l := &netsim.Logged{Inner: a, Name: fmt.Sprintf("conn%d(%s)", idx, addr)}
	if idx == 0 {
		l.Decide = n.Decide
	}
	n.mu.Lock()
	n.Conns = append(n.Conns, l)
	n.mu.Unlock()
	n.wg.Add(1)
	go func() {
		defer n.wg.Done()
		serve(b)
	}()
	return l, nil
}

func (n *simNet) NetDial(network, addr string) (net.Conn, error) { return n.dial("NetDial", addr) }
func (n *simNet) NetDialContext(ctx context.Context, network, addr string) (net.Conn, error) {
	return n.dial("NetDialContext", addr)
}

// Finish closes whatever the library left open and waits for the peers.
func (n *simNet) Finish() {
	n.mu.Lock()
	conns := append([]*netsim.Logged{}, n.Conns...)
	n.mu.Unlock()
	for _, c := range conns {
		c.Inner.Close()
	}
	for _, ln := range n.lns {
		ln.Close()
	}
	n.wg.Wait()
}

// dialPath describes one way of reaching the backend.
type dialPath struct {
	name    string
	url     string
	proxy   string // proxy URL or ""
	tlsHop1 bool   // the first hop is TLS (direct wss or https proxy)
}

var dialPaths = []dialPath{
	{"direct-ws", "ws://backend.example/ws?x=1", "", false},
	{"direct-wss", "wss://backend.example/ws", "", true},
	{"http-proxy-ws", "ws://backend.example/ws", "http://proxy.example:3128", false},
	{"http-proxy-wss", "wss://backend.example/ws", "http://proxy.example:3128", false},
	{"https-proxy-ws", "ws://backend.example/ws", "https://proxy.example:3129", true},
	{"socks5-ws", "ws://backend.example/ws", "socks5://proxy.example:1080", false},
	{"socks5-wss", "wss://backend.example/ws", "socks5://proxy.example:1080", false},
}

type backendOpts struct {
	reply     string // see netsim.Backend.Reply
	certHost  string // "" = the URL host
	untrusted bool
	proxyResp string // HTTPProxy.Reply
	socksRef  bool
	creds     string // "", "user", "user:pw"
}

// setupPath wires the peers for a path and returns a Dialer (without dial hooks set).
func (n *simNet) setupPath(p dialPath, o backendOpts) *websocket.Dialer {
	pki := netsim.TestPKI()
	u, _ := url.Parse(p.url)
	secure := u.Scheme == "wss"
	host := u.Hostname()
	port := u.Port()
	if port == "" {
		port = map[bool]string{false: "80", true: "443"}[secure]
	}
	hp := u.Hostname()
	if strings.Contains(hp, ":") {
		hp = "[" + hp + "]"
	}
	backendAddr := hp + ":" + port
	be := &netsim.Backend{Name: "backend", Reply: o.reply, Log: n.Log}
	if secure {
		ch := o.certHost
		if ch == "" {
			ch = host
		}
		be.TLS = &tls.Config{Certificates: []tls.Certificate{pki.Leaf(ch, o.untrusted)}, SessionTicketsDisabled: true}
	}
	d := &websocket.Dialer{TLSClientConfig: &tls.Config{RootCAs: pki.Roots}}
	if p.proxy == "" {
		n.peers[backendAddr] = be.Serve
		return d
	}
	pu, _ := url.Parse(p.proxy)
	if o.creds != "" {
		user, pw, has := strings.Cut(o.creds, ":")
		if has {
			pu.User = url.UserPassword(user, pw)
		} else {
			pu.User = url.User(user)
		}
	}
	d.Proxy = func(*http.Request) (*url.URL, error) { return pu, nil }
	target := func(hostport string) func(net.Conn) {
		if hostport == backendAddr {
			return be.Serve
		}
		return nil
	}
	paddr := pu.Host
	if pu.Port() == "" {
		paddr += map[string]string{"http": ":80", "https": ":443", "socks5": ":1080"}[pu.Scheme]
	}
	switch pu.Scheme {
	case "http", "https":
		hp := &netsim.HTTPProxy{Name: "proxy", Reply: o.proxyResp, Log: n.Log, Target: target}
		if pu.Scheme == "https" {
			hp.TLS = &tls.Config{Certificates: []tls.Certificate{pki.Leaf(pu.Hostname(), false)}, SessionTicketsDisabled: true}
		}
		n.peers[paddr] = hp.Serve
	case "socks5":
		s := &netsim.Socks5{Name: "proxy", Log: n.Log, Target: target, Refuse: o.socksRef}
		n.peers[paddr] = s.Serve
	}
	// reaching the backend directly is possible on this network - and would be a violation
	n.peers[backendAddr] = func(c net.Conn) {
		n.Log.Add("net: BACKEND-DIALED-DIRECTLY %s", backendAddr)
		be.Serve(c)
	}
	return d
}

// setupLoopback wires real TCP listeners on 127.0.0.1 for a cell without dial hooks and
// returns the Dialer and the URL to dial.
func (n *simNet) setupLoopback(proxyScheme string, secure bool, o backendOpts) (*websocket.Dialer, string, string) {
	pki := netsim.TestPKI()
	be := &netsim.Backend{Name: "backend", Reply: o.reply, Log: n.Log}
	if secure {
		ch := o.certHost
		if ch == "" {
			ch = "127.0.0.1"
		}
		be.TLS = &tls.Config{Certificates: []tls.Certificate{pki.Leaf(ch, o.untrusted)}, SessionTicketsDisabled: true}
	}
	direct := true
	backendAddr := n.listen(func(c net.Conn) {
		if !direct {
			n.Log.Add("net: BACKEND-DIALED-DIRECTLY")
		}
		be.Serve(c)
	})
	scheme := map[bool]string{false: "ws", true: "wss"}[secure]
	urlStr := scheme + "://" + backendAddr + "/ws"
	d := &websocket.Dialer{TLSClientConfig: &tls.Config{RootCAs: pki.Roots}}
	if proxyScheme == "" {
		return d, urlStr, backendAddr
	}
	direct = false
	target := func(hostport string) func(net.Conn) {
		if hostport == backendAddr {
			return be.Serve
		}
		return nil
	}
	var paddr string
	switch proxyScheme {
	case "http", "https":
		hp := &netsim.HTTPProxy{Name: "proxy", Reply: o.proxyResp, Log: n.Log, Target: target}
		if proxyScheme == "https" {
			hp.TLS = &tls.Config{Certificates: []tls.Certificate{pki.Leaf("127.0.0.1", false)}, SessionTicketsDisabled: true}
		}
		paddr = n.listen(hp.Serve)
	case "socks5":
		s5 := &netsim.Socks5{Name: "proxy", Log: n.Log, Target: target, Refuse: o.socksRef}
		paddr = n.listen(s5.Serve)
	}
	pu, _ := url.Parse(proxyScheme + "://" + paddr)
	if o.creds != "" {
		user, pw, has := strings.Cut(o.creds, ":")
		if has {
			pu.User = url.UserPassword(user, pw)
		} else {
			pu.User = url.User(user)
		}
	}
	d.Proxy = func(*http.Request) (*url.URL, error) { return pu, nil }
	return d, urlStr, backendAddr
}
