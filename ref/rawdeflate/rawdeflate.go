// Package rawdeflate emits DEFLATE (RFC 1951) streams by hand: stored blocks and
// fixed-Huffman literal blocks, with explicit control over BFINAL and block boundaries.
// It exists so that the reader under test is fed streams compress/flate's own deflater
// never produces.  It shares no code with compress/flate.
package rawdeflate

// BitWriter packs bits LSB-first as RFC 1951 §3.1.1 requires.
type BitWriter struct {
	Buf  []byte
	acc  uint32
	nacc uint
}

func (w *BitWriter) bits(v uint32, n uint) {
	w.acc |= v << w.nacc
	w.nacc += n
	for w.nacc >= 8 {
		w.Buf = append(w.Buf, byte(w.acc))
		w.acc >>= 8
		w.nacc -= 8
	}
}

// huff writes a Huffman code (MSB-first within the code, §3.1.1).
func (w *BitWriter) huff(code uint32, n uint) {
	for i := int(n) - 1; i >= 0; i-- {
		w.bits((code>>uint(i))&1, 1)
	}
}

// Align pads with zero bits to a byte boundary.
func (w *BitWriter) Align() {
	if w.nacc > 0 {
		w.Buf = append(w.Buf, byte(w.acc))
		w.acc, w.nacc = 0, 0
	}
}

// Stored appends a stored block (BTYPE=00) holding data (len <= 65535).
func (w *BitWriter) Stored(data []byte, final bool) {
	if len(data) > 65535 {
		panic("rawdeflate: stored block too large")
	}
	var f uint32
	if final {
		f = 1
	}
	w.bits(f, 1)
	w.bits(0, 2)
	w.Align()
	n := uint16(len(data))
	w.Buf = append(w.Buf, byte(n), byte(n>>8), byte(^n), byte(^n>>8))
	w.Buf = append(w.Buf, data...)
}

// Fixed appends a fixed-Huffman block (BTYPE=01) of literals only.
func (w *BitWriter) Fixed(data []byte, final bool) {
	var f uint32
	if final {
		f = 1
	}
	w.bits(f, 1)
	w.bits(1, 2)
	for _, b := range data {
		if b < 144 {
			w.huff(0x30+uint32(b), 8)
		} else {
			w.huff(0x190+uint32(b-144), 9)
		}
	}
	w.huff(0, 7) // end of block (symbol 256)
}

// FixedWithMatch appends a fixed-Huffman block: the literals of data, followed by one
// <length 3..10, distance 1..4> back-reference if rep > 0 (repeats the last `dist` bytes).
func (w *BitWriter) FixedWithMatch(data []byte, length, dist int, final bool) {
	var f uint32
	if final {
		f = 1
	}
	w.bits(f, 1)
	w.bits(1, 2)
	for _, b := range data {
		if b < 144 {
			w.huff(0x30+uint32(b), 8)
		} else {
			w.huff(0x190+uint32(b-144), 9)
		}
	}
	if length >= 3 && length <= 10 && dist >= 1 && dist <= 4 {
		// length codes 257..264 encode lengths 3..10 with no extra bits; 7-bit codes 0000001..
		w.huff(uint32(length-3+1), 7)
		// distance codes 0..3 encode 1..4, 5-bit fixed codes
		w.huff(uint32(dist-1), 5)
	}
	w.huff(0, 7)
}

// SyncFlush appends an empty stored block (00 00 00 ff ff after alignment).
func (w *BitWriter) SyncFlush() { w.Stored(nil, false) }

// MessageTail finishes a permessage-deflate message: sync flush, then strip 00 00 ff ff.
func (w *BitWriter) MessageTail() []byte {
	w.SyncFlush()
	return w.Buf[:len(w.Buf)-4]
}

// Kind enumerates the hand-made encodings.
const (
	KStored      = iota // one stored block
	KFixed              // one fixed-Huffman block
	KMulti              // stored + fixed + stored (split in thirds)
	KFinal              // BFINAL=1 fixed block followed by the extra 0x00 (RFC 7692 §7.2.3.4)
	KFlushInside        // fixed block, sync flush in the middle, fixed block
	KMatch              // fixed block using a back-reference (payload = data + repeat)
	NKinds
)

var KindNames = [...]string{"stored", "fixed", "multi", "bfinal", "flush-inside", "match"}

// Message compresses payload into a permessage-deflate message payload of the given kind.
// For KMatch the effective payload differs; it is returned as second value.
func Message(kind int, payload []byte) (compressed []byte, effective []byte) {
	var w BitWriter
	effective = payload
	switch kind {
	case KStored:
		w.Stored(payload, false)
	case KFixed:
		w.Fixed(payload, false)
	case KMulti:
		a, b := len(payload)/3, 2*len(payload)/3
		w.Stored(payload[:a], false)
		w.Fixed(payload[a:b], false)
		w.Stored(payload[b:], false)
	case KFinal:
		w.Fixed(payload, true)
		w.Align()
		// RFC 7692 §7.2.3.4: append 0x00 so that stripping/adding the tail stays consistent
		return append(w.Buf, 0x00), effective
	case KFlushInside:
		a := len(payload) / 2
		w.Fixed(payload[:a], false)
		w.SyncFlush()
		w.Fixed(payload[a:], false)
	case KMatch:
		if len(payload) >= 2 {
			w.FixedWithMatch(payload, 4, 2, false)
			l := len(payload)
			effective = append(append([]byte{}, payload...), payload[l-2], payload[l-1], payload[l-2], payload[l-1])
		} else {
			w.Fixed(payload, false)
		}
	}
	return w.MessageTail(), effective
}
