// Package netsim provides scripted transports: a net.Conn whose every operation is logged
// and whose answers (chunk sizes, faults) are decided by the harness.
package netsim

import (
	"errors"
	"fmt"
	"io"
	"net"
	"time"
)

// OpKind names a transport operation.
type OpKind int

const (
	OpRead OpKind = iota
	OpWrite
	OpSetDeadline
	OpSetReadDeadline
	OpSetWriteDeadline
	OpClose
)

var kindNames = [...]string{"Read", "Write", "SetDeadline", "SetReadDeadline", "SetWriteDeadline", "Close"}

func (k OpKind) String() string { return kindNames[k] }

// Fault is the environment's answer to an operation.
type Fault int

const (
	OK               Fault = iota
	FailErr                // returns ErrInjected, transfers nothing
	FailTimeout            // returns a net.Error with Timeout()==true, transfers nothing
	FailShort              // Write: transfers half (at least 0) and returns ErrInjected
	FailShortZero          // Write: transfers 0 bytes and returns ErrInjected (distinct from FailErr only in intent)
	FailEOF                // Read: returns (0, io.EOF)
	FailDataEOF            // Read: returns the data together with io.EOF
	FailDataErr            // Read: returns the data together with ErrInjected
	FailShortTimeout       // Write: transfers half and returns a timeout error (deadline hit mid-frame)
)

func (f Fault) String() string {
	return [...]string{"ok", "err", "timeout", "short", "short0", "eof", "data+eof", "data+err", "short+timeout"}[f]
}

// ErrInjected is the injected non-timeout error.
var ErrInjected = errors.New("netsim: injected transport error")

type timeoutErr struct{}

func (timeoutErr) Error() string   { return "netsim: injected i/o timeout" }
func (timeoutErr) Timeout() bool   { return true }
func (timeoutErr) Temporary() bool { return true }

// ErrTimeout is the injected timeout error.
var ErrTimeout net.Error = timeoutErr{}

// Op is one logged operation.
type Op struct {
	Kind     OpKind
	Index    int       // index in the op log
	N        int       // Read: len(p); Write: len(p)
	Data     []byte    // Write: bytes accepted; Read: bytes returned
	T        time.Time // deadline argument
	Fault    Fault
	WDL, RDL time.Time // effective deadlines when the op was issued
	Err      error
}

func (o Op) String() string {
	switch o.Kind {
	case OpRead:
		return fmt.Sprintf("Read(%d)->%d %v", o.N, len(o.Data), o.Fault)
	case OpWrite:
		return fmt.Sprintf("Write(%d)->%d %v", o.N, len(o.Data), o.Fault)
	case OpClose:
		return fmt.Sprintf("Close %v", o.Fault)
	default:
		z := "t"
		if o.T.IsZero() {
			z = "zero"
		}
		return fmt.Sprintf("%v(%s) %v", o.Kind, z, o.Fault)
	}
}

// Conn is a scripted net.Conn.  It is not safe for free-running concurrent use; under
// the controlled scheduler exactly one thread runs at a time.
type Conn struct {
	In          []byte // bytes the peer "sent"
	inPos       int
	Chunk       func(c *Conn, want, avail int) int // how many bytes the next Read returns (nil: all that fit)
	Decide      func(c *Conn, kind OpKind, index int) Fault
	AtEnd       Fault // what a Read reports when In is exhausted: FailEOF (default), FailErr, FailTimeout
	Ops         []Op
	Out         []byte   // all bytes accepted by Write, concatenated
	Writes      [][]byte // per Write call
	Closed      int
	WDL         time.Time // effective write deadline
	RDL         time.Time
	Failed      bool                                // a write fault has been injected
	Hook        func(c *Conn, phase string, op *Op) // scheduler hook (phase "pre"/"post")
	Name        string
	OnWrite     func(c *Conn, p []byte) // called for every accepted write (before logging)
	Extra       func(c *Conn) []byte    // called when In is exhausted: more input (e.g. a responder)
	LastWith    Fault                   // FailDataEOF / FailDataErr / FailTimeout: the Read that hands out the last byte of In also reports this
	FailStart   int                     // offset at which the failing Read started (-1: none yet)
	OneShotAt   int                     // >= 0: a single fault is injected when the read position reaches this offset, then the stream continues
	OneShotKind Fault                   // FailErr / FailTimeout / FailEOF (no data) or FailDataErr / FailDataEOF / FailTimeout+data (with the bytes before the offset)
	OneShotData bool                    // deliver the bytes up to the offset together with the error
	oneShotDone bool
	NoReadLog   bool // do not log successful Reads (bulk read-side use)
}

// NewConn returns a connection that will deliver in.
func NewConn(in []byte) *Conn { return &Conn{In: in, AtEnd: FailEOF, FailStart: -1, OneShotAt: -1} }

//go:norace
func (c *Conn) decide(kind OpKind) (Fault, int) {
	idx := len(c.Ops)
	if c.Decide == nil {
		return OK, idx
	}
	return c.Decide(c, kind, idx), idx
}

//go:norace
func (c *Conn) log(op Op) *Op {
	op.WDL, op.RDL = c.WDL, c.RDL
	c.Ops = append(c.Ops, op)
	return &c.Ops[len(c.Ops)-1]
}

func faultErr(f Fault) error {
	switch f {
	case FailTimeout:
		return ErrTimeout
	case FailEOF:
		return io.EOF
	default:
		return ErrInjected
	}
}

// Unread returns the bytes not yet handed out.
//
//go:norace
func (c *Conn) Unread() []byte { return c.In[c.inPos:] }

// ReadPos is the number of bytes handed out so far.
//
//go:norace
func (c *Conn) ReadPos() int { return c.inPos }

//go:norace
func (c *Conn) Read(p []byte) (int, error) {
	f, idx := c.decide(OpRead)
	if c.Hook != nil {
		c.Hook(c, "pre", &Op{Kind: OpRead, Index: idx, N: len(p)})
	}
	if c.Closed > 0 {
		c.log(Op{Kind: OpRead, Index: idx, N: len(p), Fault: FailErr, Err: net.ErrClosed})
		return 0, net.ErrClosed
	}
	if f == FailErr || f == FailTimeout || f == FailEOF {
		e := faultErr(f)
		c.log(Op{Kind: OpRead, Index: idx, N: len(p), Fault: f, Err: e})
		return 0, e
	}
	if c.OneShotAt >= 0 && !c.oneShotDone && c.inPos == c.OneShotAt && (!c.OneShotData || c.inPos == 0) {
		c.oneShotDone = true
		if c.FailStart < 0 {
			c.FailStart = c.inPos
		}
		e := faultErr(c.OneShotKind)
		c.log(Op{Kind: OpRead, Index: idx, N: len(p), Fault: c.OneShotKind, Err: e})
		return 0, e
	}
	avail := len(c.In) - c.inPos
	if avail == 0 && c.Extra != nil {
		if more := c.Extra(c); len(more) > 0 {
			c.In = append(c.In, more...)
			avail = len(c.In) - c.inPos
		}
	}
	if avail == 0 {
		if c.FailStart < 0 {
			c.FailStart = c.inPos
		}
		e := faultErr(c.AtEnd)
		c.log(Op{Kind: OpRead, Index: idx, N: len(p), Fault: c.AtEnd, Err: e})
		return 0, e
	}
	if len(p) == 0 {
		c.log(Op{Kind: OpRead, Index: idx, N: 0})
		return 0, nil
	}
	n := avail
	if n > len(p) {
		n = len(p)
	}
	if c.Chunk != nil {
		if k := c.Chunk(c, len(p), avail); k > 0 && k < n {
			n = k
		}
	}
	oneShotErr := error(nil)
	if c.OneShotAt >= 0 && !c.oneShotDone && c.inPos < c.OneShotAt && c.inPos+n >= c.OneShotAt {
		n = c.OneShotAt - c.inPos // never read across the fault position
		if c.OneShotData {
			c.oneShotDone = true
			c.FailStart = c.inPos
			oneShotErr = faultErr(c.OneShotKind)
		}
	}
	copy(p, c.In[c.inPos:c.inPos+n])
	data := c.In[c.inPos : c.inPos+n]
	if oneShotErr != nil {
		c.inPos += n
		c.log(Op{Kind: OpRead, Index: idx, N: len(p), Data: data, Fault: c.OneShotKind, Err: oneShotErr})
		return n, oneShotErr
	}
	if c.inPos+n == len(c.In) && c.LastWith != OK && f == OK {
		f = c.LastWith
		c.FailStart = c.inPos
	}
	c.inPos += n
	var err error
	if f == FailTimeout {
		err = ErrTimeout
	} else if f == FailDataEOF {
		err = io.EOF
	} else if f == FailDataErr {
		err = ErrInjected
	}
	if !c.NoReadLog || err != nil {
		c.log(Op{Kind: OpRead, Index: idx, N: len(p), Data: data, Fault: f, Err: err})
	}
	return n, err
}

//go:norace
func (c *Conn) Write(p []byte) (int, error) {
	f, idx := c.decide(OpWrite)
	if c.Hook != nil {
		c.Hook(c, "pre", &Op{Kind: OpWrite, Index: idx, N: len(p), Data: p})
	}
	if c.Closed > 0 {
		c.log(Op{Kind: OpWrite, Index: idx, N: len(p), Fault: FailErr, Err: net.ErrClosed})
		return 0, net.ErrClosed
	}
	n := len(p)
	var err error
	switch f {
	case FailErr, FailShortZero:
		n, err = 0, ErrInjected
	case FailTimeout:
		n, err = 0, ErrTimeout
	case FailShort:
		n, err = len(p)/2, ErrInjected
	case FailShortTimeout:
		n, err = len(p)/2, ErrTimeout
	}
	if err != nil {
		c.Failed = true
	}
	acc := append([]byte{}, p[:n]...)
	if c.OnWrite != nil && n > 0 {
		c.OnWrite(c, acc)
	}
	c.Out = append(c.Out, acc...)
	c.Writes = append(c.Writes, acc)
	op := c.log(Op{Kind: OpWrite, Index: idx, N: len(p), Data: acc, Fault: f, Err: err})
	if c.Hook != nil {
		c.Hook(c, "post", op)
	}
	return n, err
}

//go:norace
func (c *Conn) Close() error {
	f, idx := c.decide(OpClose)
	if c.Hook != nil {
		c.Hook(c, "pre", &Op{Kind: OpClose, Index: idx})
	}
	c.Closed++
	var err error
	if f != OK {
		err = faultErr(f)
	}
	c.log(Op{Kind: OpClose, Index: idx, Fault: f, Err: err})
	return err
}

//go:norace
func (c *Conn) setDL(kind OpKind, t time.Time) error {
	f, idx := c.decide(kind)
	if c.Hook != nil {
		c.Hook(c, "pre", &Op{Kind: kind, Index: idx, T: t})
	}
	var err error
	if c.Closed > 0 {
		err = net.ErrClosed
		f = FailErr
	} else if f != OK {
		err = faultErr(f)
		if kind == OpSetWriteDeadline || kind == OpSetDeadline {
			// a failed deadline call leaves the old deadline in place
		}
	} else {
		switch kind {
		case OpSetDeadline:
			c.WDL, c.RDL = t, t
		case OpSetReadDeadline:
			c.RDL = t
		case OpSetWriteDeadline:
			c.WDL = t
		}
	}
	c.log(Op{Kind: kind, Index: idx, T: t, Fault: f, Err: err})
	return err
}

//go:norace
func (c *Conn) SetDeadline(t time.Time) error { return c.setDL(OpSetDeadline, t) }

//go:norace
func (c *Conn) SetReadDeadline(t time.Time) error { return c.setDL(OpSetReadDeadline, t) }

//go:norace
func (c *Conn) SetWriteDeadline(t time.Time) error { return c.setDL(OpSetWriteDeadline, t) }

type addr string

func (a addr) Network() string { return "sim" }
func (a addr) String() string  { return string(a) }

//go:norace
func (c *Conn) LocalAddr() net.Addr { return addr("local") }

//go:norace
func (c *Conn) RemoteAddr() net.Addr { return addr("remote") }

// CountOps returns how many ops of a kind were logged.
//
//go:norace
func (c *Conn) CountOps(k OpKind) int {
	n := 0
	for _, o := range c.Ops {
		if o.Kind == k {
			n++
		}
	}
	return n
}

// Chunkers

// ChunkFixed delivers at most n bytes per Read.
func ChunkFixed(n int) func(*Conn, int, int) int {
	return func(_ *Conn, want, avail int) int { return n }
}

// ChunkSplitAt delivers everything up to absolute offset k in one read, then the rest.
func ChunkSplitAt(k int) func(*Conn, int, int) int {
	return func(c *Conn, want, avail int) int {
		if c.inPos < k {
			return k - c.inPos
		}
		return avail
	}
}

// ChunkAtOffsets cuts reads at each of the (ascending) absolute offsets.
func ChunkAtOffsets(offs []int) func(*Conn, int, int) int {
	return func(c *Conn, want, avail int) int {
		for _, o := range offs {
			if c.inPos < o {
				return o - c.inPos
			}
		}
		return avail
	}
}
