// Command instrument produces a `go build -overlay` that maps rewritten copies of the
// package's non-test sources over the originals (nothing in the repository is edited):
//
//	import "sync"  ->  sync "verif.local/engine/vrt/vsync"
//	import "time"  ->  time "verif.local/engine/vrt/vtime"
//	import "sync/atomic"  ->  atomic "verif.local/engine/vrt/vatomic"
//	<-x            ->  __vrt.Recv(x)
//	x <- v         ->  __vrt.Send(x, v)
//	select {...}   ->  switch __vrt.Select(hasDefault, cases...) { case -2: <original select>; case i: <comm i>; body i; case -1: default body }
//
// Constructs the scheduler does not model (go statements, close, range over a channel,
// comma-ok receive) make it fail loudly (exit 2), never pass silently.
package main

import (
	"bytes"
	"encoding/json"
	"flag"
	"fmt"
	"go/ast"
	"go/parser"
	"go/printer"
	"go/token"
	"os"
	"path/filepath"
	"strconv"
	"strings"

	"golang.org/x/tools/go/ast/astutil"
)

func fatal(format string, a ...any) {
	fmt.Fprintf(os.Stderr, "instrument: "+format+"\n", a...)
	os.Exit(2)
}

func main() {
	repo := flag.String("repo", "/repo", "package directory")
	out := flag.String("out", "", "directory for rewritten sources")
	export := flag.String("export", "", "export file to add to the package")
	overlay := flag.String("overlay", "", "overlay json to write")
	flag.Parse()
	if err := os.MkdirAll(*out, 0o755); err != nil {
		fatal("%v", err)
	}
	files, _ := filepath.Glob(filepath.Join(*repo, "*.go"))
	repl := map[string]string{}
	for _, f := range files {
		if strings.HasSuffix(f, "_test.go") {
			continue
		}
		dst := filepath.Join(*out, filepath.Base(f))
		if err := rewriteFile(f, dst); err != nil {
			fatal("%s: %v", f, err)
		}
		repl[f] = dst
	}
	if *export != "" {
		repl[filepath.Join(*repo, "zz_verif_export.go")] = *export
		pools := strings.TrimSuffix(*export, ".go") + "_pools.go"
		if _, err := os.Stat(pools); err == nil {
			// the pools file names sync.Pool: it must see the same (substituted) package
			dst := filepath.Join(*out, "zz_verif_export_pools.go")
			if err := rewriteFile(pools, dst); err != nil {
				fatal("%s: %v", pools, err)
			}
			repl[filepath.Join(*repo, "zz_verif_export_pools.go")] = dst
		}
	}
	b, _ := json.MarshalIndent(map[string]any{"Replace": repl}, "", " ")
	if err := os.WriteFile(*overlay, b, 0o644); err != nil {
		fatal("%v", err)
	}
}

func sel(x, s string) *ast.SelectorExpr {
	return &ast.SelectorExpr{X: ast.NewIdent(x), Sel: ast.NewIdent(s)}
}

func call(fn ast.Expr, args ...ast.Expr) *ast.CallExpr { return &ast.CallExpr{Fun: fn, Args: args} }

const vrtName = "__vrt"

func rewriteFile(src, dst string) error {
	fset := token.NewFileSet()
	f, err := parser.ParseFile(fset, src, nil, parser.ParseComments)
	if err != nil {
		return err
	}
	usedVrt := false
	var unsupported []string
	pos := func(n ast.Node) string { return fset.Position(n.Pos()).String() }

	// imports
	for _, im := range f.Imports {
		p, _ := strconv.Unquote(im.Path.Value)
		switch p {
		case "sync":
			im.Path.Value = strconv.Quote("verif.local/engine/vrt/vsync")
			if im.Name == nil {
				im.Name = ast.NewIdent("sync")
			}
		case "time":
			im.Path.Value = strconv.Quote("verif.local/engine/vrt/vtime")
			if im.Name == nil {
				im.Name = ast.NewIdent("time")
			}
		case "sync/atomic":
			im.Path.Value = strconv.Quote("verif.local/engine/vrt/vatomic")
			if im.Name == nil {
				im.Name = ast.NewIdent("atomic")
			}
		}
	}

	// commRaw marks the communication statements of select clauses: they are re-issued as they are
	commRaw := map[ast.Node]bool{}
	ast.Inspect(f, func(n ast.Node) bool {
		if cc, ok := n.(*ast.CommClause); ok && cc.Comm != nil {
			ast.Inspect(cc.Comm, func(m ast.Node) bool {
				if m != nil {
					commRaw[m] = true
				}
				return true
			})
		}
		return true
	})

	var rewrite func(n ast.Node) ast.Node
	rewrite = func(root ast.Node) ast.Node {
		return astutil.Apply(root, nil, func(c *astutil.Cursor) bool {
			n := c.Node()
			switch v := n.(type) {
			case *ast.GoStmt:
				unsupported = append(unsupported, pos(v)+": go statement")
			case *ast.RangeStmt:
				// ranging over a channel cannot be told from the syntax alone; the package has none
			case *ast.CallExpr:
				if id, ok := v.Fun.(*ast.Ident); ok && id.Name == "close" && len(v.Args) == 1 {
					usedVrt = true
					v.Fun = sel(vrtName, "Close")
				}
			case *ast.UnaryExpr:
				if v.Op == token.ARROW && !commRaw[v] {
					usedVrt = true
					c.Replace(call(sel(vrtName, "Recv"), v.X))
				}
			case *ast.SendStmt:
				if !commRaw[v] {
					usedVrt = true
					c.Replace(&ast.ExprStmt{X: call(sel(vrtName, "Send"), v.Chan, v.Value)})
				}
			case *ast.AssignStmt:
				if len(v.Lhs) == 2 && len(v.Rhs) == 1 && !commRaw[v] {
					if u, ok := v.Rhs[0].(*ast.CallExpr); ok {
						if s, ok := u.Fun.(*ast.SelectorExpr); ok && s.Sel.Name == "Recv" {
							if x, ok := s.X.(*ast.Ident); ok && x.Name == vrtName {
								unsupported = append(unsupported, pos(v)+": comma-ok receive")
							}
						}
					}
				}
			case *ast.SelectStmt:
				usedVrt = true
				hasDefault := false
				var cases []ast.Expr
				var clauses []ast.Stmt
				idx := 0
				for _, st := range v.Body.List {
					cc := st.(*ast.CommClause)
					if cc.Comm == nil {
						hasDefault = true
						clauses = append(clauses, &ast.CaseClause{List: []ast.Expr{&ast.UnaryExpr{Op: token.SUB, X: &ast.BasicLit{Kind: token.INT, Value: "1"}}}, Body: cc.Body})
						continue
					}
					var ch ast.Expr
					kind := "R"
					switch cm := cc.Comm.(type) {
					case *ast.SendStmt:
						ch, kind = cm.Chan, "S"
					case *ast.ExprStmt:
						ch = cm.X.(*ast.UnaryExpr).X
					case *ast.AssignStmt:
						ch = cm.Rhs[0].(*ast.UnaryExpr).X
					}
					cases = append(cases, call(sel(vrtName, kind), ch))
					body := append([]ast.Stmt{cc.Comm}, cc.Body...)
					clauses = append(clauses, &ast.CaseClause{List: []ast.Expr{&ast.BasicLit{Kind: token.INT, Value: strconv.Itoa(idx)}}, Body: body})
					idx++
				}
				hd := "false"
				if hasDefault {
					hd = "true"
				}
				args := append([]ast.Expr{ast.NewIdent(hd)}, cases...)
				// case -2: the original select (outside a managed execution)
				orig := &ast.SelectStmt{Body: &ast.BlockStmt{List: cloneClauses(v.Body.List)}}
				clauses = append([]ast.Stmt{&ast.CaseClause{List: []ast.Expr{&ast.UnaryExpr{Op: token.SUB, X: &ast.BasicLit{Kind: token.INT, Value: "2"}}}, Body: []ast.Stmt{orig}}}, clauses...)
				// (a select whose clauses all return is a terminating statement; the switch needs a
				// default clause to be one too)
				clauses = append(clauses, &ast.CaseClause{Body: []ast.Stmt{&ast.ExprStmt{X: call(ast.NewIdent("panic"), &ast.BasicLit{Kind: token.STRING, Value: strconv.Quote("vrt: Select returned an unknown clause")})}}})
				c.Replace(&ast.SwitchStmt{Tag: call(sel(vrtName, "Select"), args...), Body: &ast.BlockStmt{List: clauses}})
			}
			return true
		})
	}
	rewrite(f)
	if len(unsupported) > 0 {
		return fmt.Errorf("constructs the scheduler does not model: %s", strings.Join(unsupported, "; "))
	}
	if usedVrt {
		astutil.AddNamedImport(fset, f, vrtName, "verif.local/engine/vrt")
	}
	var buf bytes.Buffer
	cfg := printer.Config{Mode: printer.UseSpaces | printer.TabIndent, Tabwidth: 8}
	if err := cfg.Fprint(&buf, fset, f); err != nil {
		return err
	}
	return os.WriteFile(dst, buf.Bytes(), 0o644)
}

// cloneClauses makes a shallow copy of comm clauses whose bodies are shared with the switch
// (statements are immutable after the rewrite has visited them).
func cloneClauses(l []ast.Stmt) []ast.Stmt {
	out := make([]ast.Stmt, len(l))
	for i, s := range l {
		cc := s.(*ast.CommClause)
		out[i] = &ast.CommClause{Comm: cc.Comm, Body: cc.Body}
	}
	return out
}
