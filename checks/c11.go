//go:build verif

package checks

import (
	"bytes"
	"fmt"
	"io"
	"os"
	"time"

	"github.com/gorilla/websocket"
	"verif.local/engine/explore"
	"verif.local/engine/vrt"
	"verif.local/ref/netsim"
	"verif.local/ref/wsref"
)

func init() {
	Register(&Check{
		ID:          "C11",
		Technique:   "stateless model checking of the real Conn under a controlled scheduler with virtual time: all interleavings (preemption-bounded) of one reader (default handlers write), one writer, n WriteControl callers with and without deadlines, Close, and the moment the clock passes the deadline; every explored schedule is also executed in a -race build whose hand-offs are invisible to ThreadSanitizer (futex baton), so the race detector is a per-schedule oracle",
		Rule:        "scenarios = {role} x {deflate} x {writer variants} x {0,1,2 WriteControl callers; deadline zero | D} x {Close thread or not} x {clock thread}; every schedule within the preemption bound; the same scenario list is executed by the plain-scheduler binary (logic oracles) and by the -race binary (race oracle + logic oracles). non-trivial = at least two threads wrote and a non-default schedule; distinct by observation hash",
		Assumptions: []string{"data races = those ThreadSanitizer reports on the explored schedules (happens-before based)", "scheduling points as in C09; the writer being stuck inside the transport for arbitrarily long is modelled by not scheduling it between Write-begin and Write-end"},
		Flavour:     "sched",
		Budget:      map[string]time.Duration{"quick": 110 * time.Second, "thorough": 28 * time.Minute},
		Bound:       map[string]string{"quick": "preemptions <= 2 (plain scheduler) and <= 1 (-race build)", "thorough": "preemptions <= 3 (plain) and <= 2 (-race)"},
		Scenarios:   c11Scenarios,
	})
}

const c11D = 100 * time.Millisecond

func c11Scenarios(tier string) []*explore.Scenario {
	var scs []*explore.Scenario
	for _, flavour := range []string{"sched", "race"} {
		if flavour == "race" && os.Getenv("VERIF_NO_RACE") != "" {
			continue // development aid only: registered commands never set it
		}
		for _, server := range []bool{true, false} {
			for _, deflate := range []bool{false, true} {
				for nctl := 0; nctl <= 2; nctl++ {
					for _, withClose := range []bool{false, true} {
						for _, withReader := range []bool{true, false} {
							if !withReader && nctl == 0 {
								continue
							}
							if tier == "quick" && deflate && (withClose || nctl == 2) {
								continue
							}
							server, deflate, nctl, withClose, withReader, flavour := server, deflate, nctl, withClose, withReader, flavour
							nthreads := 1 + nctl
							if nctl > 0 {
								nthreads++ // clock thread
							}
							if withClose {
								nthreads++
							}
							if withReader {
								nthreads++
							}
							bound := 2
							if tier == "thorough" {
								bound++
							}
							if flavour == "race" && bound > 1 {
								bound--
							}
							scs = append(scs, &explore.Scenario{
								Name:    fmt.Sprintf("c11/%s/writer=%s/deflate=%v/ctl=%d/close=%v/reader=%v", flavour, roleName(server), deflate, nctl, withClose, withReader),
								Bound:   bound,
								Flavour: flavour,
								Body:    func(x *explore.Ctx) { c11Body(x, server, deflate, nctl, withClose, withReader) },
							})
						}
					}
				}
			}
		}
	}
	// "Sharing one PreparedMessage ... among many connections is likewise race-free": the
	// concurrent-send harness of C19 and the shared-pool harness of C20, both flavours
	for _, flavour := range []string{"sched", "race"} {
		if flavour == "race" && os.Getenv("VERIF_NO_RACE") != "" {
			continue
		}
		b := 2
		if tier == "thorough" {
			b = 3
		}
		if flavour == "race" {
			b--
		}
		for _, mix := range []string{"same-kind", "two-same-one-other", "all-different"} {
			flavour, mix := flavour, mix
			scs = append(scs, &explore.Scenario{Name: fmt.Sprintf("c11/%s/shared-prepared/%s", flavour, mix), Bound: b, Flavour: flavour, Body: func(x *explore.Ctx) { c19Conc(x, mix, 5) }})
		}
		flavour := flavour
		scs = append(scs, &explore.Scenario{Name: fmt.Sprintf("c11/%s/shared-pool", flavour), Bound: b, Flavour: flavour, Body: func(x *explore.Ctx) { c20Share(x, 2, false) }})
	}
	return scs
}

type c11State struct {
	dl          [4]time.Duration
	blockedLate string
	faultArmed  bool
	faultWrite  int // which transport Write (0-based) fails
	faultKind   netsim.Fault
	writesSeen  int
	faultOp     int // op index of the failed write (-1: not yet)
	faulted     bool
}

//go:norace
func (st *c11State) decide(c *netsim.Conn, kind netsim.OpKind, index int) netsim.Fault {
	if !st.faultArmed || st.faulted || kind != netsim.OpWrite {
		return netsim.OK
	}
	if st.writesSeen == st.faultWrite {
		st.faulted, st.faultOp = true, index
		st.writesSeen++
		return st.faultKind
	}
	st.writesSeen++
	return netsim.OK
}

//go:norace
func (st *c11State) setDeadline(i int, d time.Duration) { st.dl[i] = d }

// A WriteControl with a deadline may be found waiting for the connection after the deadline
// only while a timer that will end the wait is pending (the timer may have been armed late by
// exactly the time the thread was not running - one clock jump at most).
//
//go:norace
func (st *c11State) onBlocked(thread, what string, clock, nextTimer time.Duration) {
	if len(thread) != 2 || thread[0] != 'P' {
		return
	}
	d := st.dl[thread[1]-'0']
	if d > 0 && clock >= d && st.blockedLate == "" && (nextTimer < 0 || nextTimer > clock+d) {
		st.blockedLate = fmt.Sprintf("%s is blocked in %s at virtual time +%v with no timer pending that would end the wait (next timer %v); its WriteControl deadline was +%v", thread, what, clock, nextTimer, d)
	}
}

type c11Ctl struct {
	thread   string
	typ      int
	payload  []byte
	deadline time.Duration // 0 = none
	err      error
	call     int
}

func c11Body(x *explore.Ctx, server, deflate bool, nctl int, withClose, withReader bool) {
	nthreads := 1 + nctl
	if nctl > 0 {
		nthreads++
	}
	if withClose {
		nthreads++
	}
	if withReader {
		nthreads++
	}
	s, l := newSchedOpt(x, nthreads <= 3)
	masked := server
	mk := maskKeys[3]
	fr := func(op byte, fin bool, p string) wsref.Frame {
		return wsref.Frame{Fin: fin, Opcode: op, Masked: masked, Key: mk, Payload: []byte(p)}
	}
	in := wsref.EncodeAll([]wsref.Frame{fr(9, true, "p1"), fr(2, false, "ab"), fr(9, true, "p2"), fr(0, true, "cd"), fr(8, true, string(wsref.CloseBody(1000, "")))})
	if !withReader {
		in = nil
	}
	nc := netsim.NewConn(in)
	hookTransport(l, nc, "c")
	// optionally one transport Write fails (fail-stop must hold under every interleaving:
	// a WriteControl already waiting for the connection must not write behind the torn frame)
	st := &c11State{}
	if fv := x.Choose(7, "transport-fault"); fv > 0 {
		st.faultWrite = (fv - 1) / 2
		st.faultKind = []netsim.Fault{netsim.FailShortTimeout, netsim.FailErr}[(fv-1)%2]
		st.faultArmed = true
		nc.Decide = st.decide
	}
	c := websocket.VerifNewConn(nc, server, 0, 125, nil, deflate)
	pm, _ := websocket.NewPreparedMessage(websocket.TextMessage, []byte("prepared"))
	var msgs []*c09Msg
	record := func(m *c09Msg, err error) { m.ok = err == nil }
	// 400 bytes > 2*(125+14): on a server this is the unbuffered direct path (header+buffer and
	// the payload go to the transport as two writes); on a client it is three buffered frames
	big := Pattern(3, 400)
	mid := Pattern(0, 300)
	s.Go("W", func() {
		m := &c09Msg{typ: websocket.BinaryMessage, payload: big}
		msgs = append(msgs, m)
		var w io.WriteCloser
		if l.call("NextWriter", func() (err error) { w, err = c.NextWriter(websocket.BinaryMessage); return }) == nil {
			l.call("Write(400)", func() error { _, err := w.Write(big); return err })
			record(m, l.call("Close", func() error { return w.Close() }))
		}
		// WriteMessage larger than the buffer: the server's single-frame fast path with "extra"
		m3 := &c09Msg{typ: websocket.BinaryMessage, payload: mid}
		msgs = append(msgs, m3)
		record(m3, l.call("WriteMessage(300)", func() error { return c.WriteMessage(websocket.BinaryMessage, mid) }))
		m2 := &c09Msg{typ: websocket.TextMessage, payload: []byte("prepared")}
		msgs = append(msgs, m2)
		record(m2, l.call("WritePreparedMessage", func() error { return c.WritePreparedMessage(pm) }))
	})
	var readMsgs []wsref.Message
	var readErr error
	if withReader {
		s.Go("R", func() {
			for i := 0; i < 3; i++ {
				var t int
				var p []byte
				err := l.call("ReadMessage", func() (err error) { t, p, err = c.ReadMessage(); return })
				if err != nil {
					readErr = err
					return
				}
				readMsgs = append(readMsgs, wsref.Message{Type: t, Payload: p})
			}
		})
	}
	// every thread writes only to its own pre-allocated slots (the race flavour must not see
	// harness races, and the harness must not synchronise)
	ctls := make([]*c11Ctl, 2*nctl)
	for i := 0; i < nctl; i++ {
		i := i
		name := fmt.Sprintf("P%d", i)
		withDL := i == 0
		a := &c11Ctl{thread: name, typ: websocket.PingMessage, payload: []byte(name + "-a")}
		b := &c11Ctl{thread: name, typ: websocket.PongMessage, payload: []byte(name + "-b")}
		ctls[2*i], ctls[2*i+1] = a, b
		dl := time.Time{}
		if withDL {
			a.deadline = c11D
			dl = vrt.Base.Add(c11D)
		}
		s.Go(name, func() {
			if withDL {
				st.setDeadline(i, c11D)
			}
			a.err = l.call("WriteControl(ping)", func() error { return c.WriteControl(a.typ, a.payload, dl) })
			st.setDeadline(i, 0)
			b.err = l.call("WriteControl(pong)#2", func() error { return c.WriteControl(b.typ, b.payload, time.Time{}) })
		})
	}
	s.OnBlocked = st.onBlocked
	if nctl > 0 {
		s.Go("T", func() {
			s.Point("clock passes the deadline", nil)
			s.AdvanceTo(c11D + time.Millisecond)
			l.add(schedEvent{Kind: evClock, Thread: "T"})
		})
	}
	closed := false
	if withClose {
		s.Go("C", func() {
			l.call("Conn.Close", func() error { closed = true; return c.Close() })
		})
	}
	s.Run()
	for _, t := range s.Trace {
		x.Logf("schedule: %s", t)
	}

	// ---- oracles
	key := func(what string) string {
		return fmt.Sprintf("C11:%s:writer=%s:deflate=%v", what, roleName(server), deflate)
	}
	var res []string
	for _, cl := range l.calls {
		res = append(res, fmt.Sprintf("%s:%s=%v", cl.Thread, cl.Name, cl.Err))
	}
	x.Obs("wire=%s calls=%v read=%s/%v", short(nc.Out), res, fmtMsgs(readMsgs), readErr)
	x.Check(s.Deadlock == "", key("deadlock"), "%s (calls %v)", s.Deadlock, res)
	x.Check(st.blockedLate == "", key("writecontrol-waits-past-deadline"), "%s", st.blockedLate)
	if s.Switches > 2 {
		x.NonTrivial()
	}
	if st.faulted {
		// fail-stop under concurrency: nothing is written after the failed transport write
		// (the failed write is found in the log by its fault mark: under the scheduler other
		// threads may log operations between the fault decision and the write itself)
		failedAt := -1
		for i, op := range nc.Ops {
			if op.Kind == netsim.OpWrite && op.Fault != netsim.OK {
				failedAt = i
				break
			}
		}
		if failedAt >= 0 {
			for _, op := range nc.Ops[failedAt+1:] {
				x.Check(op.Kind != netsim.OpWrite || len(op.Data) == 0, key("write-after-fault"), "transport Write (%d bytes accepted) after the write that failed (log position %d) (calls %v)", len(op.Data), failedAt, res)
			}
		}
		_, perr := wsref.DecodeStrict(nc.Out, wsref.StrictOpts{Sender: RoleOf(server), Deflate: deflate, AllowPartial: true})
		x.Check(perr == nil, key("prefix-malformed"), "bytes written before the fault are not whole frames plus at most one torn frame: %v", perr)
		return
	}
	d, err := wsref.DecodeStrict(nc.Out, wsref.StrictOpts{Sender: RoleOf(server), Deflate: deflate, AllowPartial: true})
	x.Check(err == nil, key("frames-interleaved"), "bytes on the wire are not a sequence of whole frames (frames of different writers interleaved?): %v", err)
	x.Check(len(d.Rest) == 0 || closed, key("partial-frame"), "wire ends with an incomplete frame although the transport was not closed")
	// data messages reported sent == complete data messages on the wire, in order
	var sent []*c09Msg
	for _, m := range msgs {
		if m.ok {
			sent = append(sent, m)
		}
	}
	data := d.Data()
	x.Check(len(data) == len(sent), key("reported-sent-mismatch"), "%d complete data messages on the wire, %d reported sent (%v)", len(data), len(sent), res)
	for i := range data {
		x.Check(data[i].Type == sent[i].typ && bytes.Equal(data[i].Payload, sent[i].payload), key("payload"), "wire data message %d differs from what was written", i)
	}
	// control frames: every caller told "success" has exactly one frame; every other control
	// frame on the wire is one a default handler may have sent (pong p1 / pong p2 / close 1000)
	wire := map[string]int{}
	for _, m := range d.Control() {
		if m.Type == wsref.OpClose && len(m.Payload) >= 2 {
			// the reason text of an echoed close is free: only the status code counts
			wire[fmt.Sprintf("8:code=%d", int(m.Payload[0])<<8|int(m.Payload[1]))]++
			continue
		}
		wire[fmt.Sprintf("%d:%s", m.Type, m.Payload)]++
	}
	for _, a := range ctls {
		k := fmt.Sprintf("%d:%s", a.typ, a.payload)
		if a.err == nil {
			x.Check(wire[k] == 1, key("control-success-not-on-wire"), "%s WriteControl(%s) returned nil but the wire has %d such frames", a.thread, a.payload, wire[k])
		} else {
			x.Check(wire[k] == 0, key("control-failed-but-on-wire"), "%s WriteControl(%s) returned %v but its frame is on the wire", a.thread, a.payload, a.err)
			if ne, ok := a.err.(interface{ Timeout() bool }); ok && ne.Timeout() {
				x.Check(a.deadline > 0, key("timeout-without-deadline"), "WriteControl without deadline returned a timeout error")
			}
		}
		delete(wire, k)
	}
	for k, n := range wire {
		okk := withReader && (k == "10:p1" || k == "10:p2" || k == "8:code=1000") && n == 1
		x.Check(okk, key("unexplained-control-frame"), "control frame %q x%d on the wire that no caller and no default handler accounts for", k, n)
	}
	// a timed-out WriteControl does not poison the connection: the same thread's next call
	// succeeds unless a close was sent / the transport was closed
	closeSent := false
	for _, m := range d.Control() {
		if m.Type == wsref.OpClose {
			closeSent = true
		}
	}
	for i := 0; i+1 < len(ctls); i += 2 {
		a, b := ctls[i], ctls[i+1]
		if ne, ok := a.err.(interface{ Timeout() bool }); ok && ne.Timeout() && !closed && !closeSent {
			x.Check(b.err == nil, key("poisoned-by-timeout"), "%s: WriteControl timed out (%v) and the following WriteControl failed with %v", a.thread, a.err, b.err)
		}
	}
	// the reader saw its stream undisturbed
	if withReader && !closed {
		x.Check(len(readMsgs) == 1 && bytes.Equal(readMsgs[0].Payload, []byte("abcd")), key("reader-disturbed"), "reader delivered %s (then %v)", fmtMsgs(readMsgs), readErr)
	}
}
