//go:build verif

package checks

import (
	"encoding/base64"
	"fmt"
	"net/http"
	"sort"
	"strings"
	"time"

	"github.com/gorilla/websocket"
	"verif.local/engine/explore"
	"verif.local/ref/hsref"
	"verif.local/ref/netsim"
)

func init() {
	Register(&Check{
		ID:        "C12",
		Technique: "exhaustive deviation-bounded enumeration of upgrade requests built from the handshake grammar x Upgrader settings x responseHeader maps against the real Upgrader.Upgrade; oracle = independent RFC 6455 §4 / RFC 7230 reference predicate and an independent line-level parser of the 101 response",
		Rule:      "default = canonical valid request; every dimension (method, Connection, Upgrade, Version, Key, Origin, subprotocol offer, extension offer, Upgrader.Subprotocols, EnableCompression, CheckOrigin, buffer sizes, pool, HandshakeTimeout, responseHeader incl. every byte value 0..255 and CRLF injections) deviates independently: all single and pairwise (quick) / triple (thorough) faults are enumerated completely. non-trivial = Upgrade was called with a non-default request; distinct by observation hash",
		Assumptions: []string{
			"don't-care (only no-panic and internal consistency required): malformed (non-1#token) Connection/Upgrade lines, version lists containing 13, several key lines, application-supplied Sec-Websocket-Protocol when Subprotocols==nil (membership only - injection safety is still required), exact status code of multi-fault requests",
			"net/http's request representation (canonical header keys) is the input domain",
		},
		Budget:    map[string]time.Duration{"quick": 100 * time.Second, "thorough": 20 * time.Minute},
		Bound:     map[string]string{"quick": "deviations <= 2 (all single and pairwise faults)", "thorough": "deviations <= 3"},
		Scenarios: c12Scenarios,
	})
}

func c12Scenarios(tier string) []*explore.Scenario {
	bound := 2
	if tier == "thorough" {
		bound = 3
	}
	var scs []*explore.Scenario
	// shard by the first dimension (method x Connection variant) to give the workers something to split
	for ci := range c12Conn {
		ci := ci
		scs = append(scs, &explore.Scenario{Name: fmt.Sprintf("c12/request/connection=%d", ci), Bound: bound, Body: func(x *explore.Ctx) { c12Body(x, ci, -1) }})
	}
	scs = append(scs, &explore.Scenario{Name: "c12/extension-offer-quoted-strings", Bound: 1, Body: func(x *explore.Ctx) { c12Body(x, 0, -2) }})
	// every byte value inside an application-supplied response header value
	for pos := 0; pos < 3; pos++ {
		pos := pos
		scs = append(scs, &explore.Scenario{Name: fmt.Sprintf("c12/responseheader-bytes/pos=%d", pos), Bound: 1, Body: func(x *explore.Ctx) { c12Body(x, 0, pos) }})
	}
	return scs
}

var c12Conn = [][]string{
	{"Upgrade"}, {"upgrade"}, {"UPGRADE"}, {"keep-alive, Upgrade"}, {"Upgrade, keep-alive"}, {" \tUpgrade\t "}, {"keep-alive", "Upgrade"}, {"a,b , upGRade"},
	{"xupgrade"}, {"upgrade2"}, {"upgrades"}, {"keep-alive"}, nil, {"up grade"}, {"keep-alive Upgrade"}, {",Upgrade"}, {"Upgrade;q=1"}, {"\"Upgrade\""}, {"keep-alive", "xupgrade, upgradex"},
	{"keep-alive,", "Upgrade, HTTP2-Settings"}, {"h2c/1 x", "Upgrade, HTTP2-Settings"}, {"", "keep-alive, Upgrade"}, {"a,, b", "x, upgrade"}, {"Upgrade, HTTP2-Settings", "bad element"},
}
var c12Upg = [][]string{
	{"websocket"}, {"WebSocket"}, {"WEBSOCKET"}, {"h2c, websocket"}, {"websocket, h2c"}, {"\twebsocket "}, {"h2c", "websocket"},
	{"websockets"}, {"xwebsocket"}, {"websocket2"}, {"web socket"}, {"h2c"}, nil, {"websocket/13"}, {"h2c websocket"}, {"h2c", "websockets, awebsocket"},
	{"websoc\u212aet"}, {"web\u017focket"}, {"h2c, websoc\u212aet"}, {"bad element here", "websocket"}, {"websocket", "bad element here"},
	{"h2c,", "websocket, h2c"}, {"h2c/2 y", "h2c, websocket"}, {"", "websocket, x"},
}
var c12Ver = [][]string{{"13"}, {"8"}, {"13, 8"}, {"8, 13"}, {""}, {"013"}, {"13 "}, nil, {"8", "13"}, {"1 3"}, {"13.0"}, {"130"}, {"113"}, {"1"}, {"3"}, {"13a"}, {"8,", "13"}, {"", "13"}}

func b64n(n int) string { return base64.StdEncoding.EncodeToString(Pattern(3, n)) }

var c12Keys = [][]string{
	{base64.StdEncoding.EncodeToString([]byte{0xfb, 0xff, 0xfe, 3, 4, 5, 6, 7, 8, 9, 10, 11, 12, 13, 14, 15})}, // contains + and /
	{b64n(16)}, {b64n(0)}, {b64n(1)}, {b64n(15)}, {b64n(17)}, {b64n(32)},
	{strings.TrimRight(b64n(16), "=")}, {base64.URLEncoding.EncodeToString([]byte{0xfb, 0xff, 0xfe, 3, 4, 5, 6, 7, 8, 9, 10, 11, 12, 13, 14, 15})},
	{b64n(16)[:10] + " " + b64n(16)[10:]}, {""}, nil, {b64n(16), b64n(16)}, {" " + b64n(16)}, {b64n(16)[:23] + "!"}, {"AAAAAAAAAAAAAAAAAAAAAA=A"},
}
var c12Proto = [][]string{nil, {"chat"}, {"chat, superchat"}, {"superchat,chat"}, {" superchat ,\tchat"}, {"superchat", "chat"}, {"other"},
	{"chat/2"}, {"chat:v1, superchat/3"}, {"chat;q=1"}, {"chat superchat"}, {"chatx, xchat"}, {"\"chat\""}, {"chat@example"}}
var c12Ext = [][]string{
	nil, {"permessage-deflate"}, {"permessage-deflate; client_max_window_bits"}, {"permessage-deflate; server_no_context_takeover; client_no_context_takeover"},
	{"permessage-deflate; client_max_window_bits=\"10\""}, {"foo, permessage-deflate"}, {"foo", "permessage-deflate"}, {"foo; a=1; b=\"c,d\", permessage-deflate; server_max_window_bits=10"},
	{"x-webkit-deflate-frame"}, {"permessage-deflate2"}, {";;, permessage-deflate"}, {"PERMESSAGE-DEFLATE"},
}

// quoted-string contents that try to hide separators, escapes and the extension name
var c12Quoted = []string{`a`, `a\\\\`, `\\"`, `, permessage-deflate`, `, permessage-deflate; z=`, `; permessage-deflate`, `permessage-deflate`, ``, `a\\\\\\"`, `\\\\\\\\`,
	// an escaped quote does not end the string: what follows is still inside it
	`\"`, `a\", permessage-deflate, b; w=\"c`, `\\\", permessage-deflate; w=\"`}
var c12QuotedTail = []string{``, `; z="`, `, permessage-deflate`, `; z="\\`, `, baz`}

var c12ServerProtos = [][]string{nil, {}, {"chat"}, {"superchat", "chat"}, {"other"}}

func c12Body(x *explore.Ctx, connIdx int, bytePos int) {
	quotedFamily := bytePos == -2
	if quotedFamily {
		bytePos = -1
	}
	// ---- request
	method := []string{"GET", "POST", "HEAD", "get"}[x.Choose(4, "method")]
	hdr := http.Header{}
	set := func(k string, v []string) {
		if v != nil {
			hdr[k] = v
		}
	}
	set("Connection", c12Conn[connIdx])
	set("Upgrade", c12Upg[x.Choose(len(c12Upg), "Upgrade")])
	set("Sec-Websocket-Version", c12Ver[x.Choose(len(c12Ver), "Version")])
	set("Sec-Websocket-Key", c12Keys[x.Choose(len(c12Keys), "Key")])
	offer := c12Proto[x.Choose(len(c12Proto), "Protocol-offer")]
	set("Sec-Websocket-Protocol", offer)
	extOffer := c12Ext[x.Choose(len(c12Ext), "Extensions-offer")]
	if quotedFamily {
		q1 := c12Quoted[x.Pick(len(c12Quoted), "q1")]
		q2 := c12Quoted[x.Pick(len(c12Quoted), "q2")]
		tail := c12QuotedTail[x.Pick(len(c12QuotedTail), "tail")]
		extOffer = []string{`foo; x="` + q1 + `", bar; y="` + q2 + `"` + tail}
		if x.Pick(2, "second-line") == 1 {
			extOffer = []string{`foo; x="` + q1 + `"`, `bar; y="` + q2 + `"` + tail}
		}
	}
	set("Sec-Websocket-Extensions", extOffer)
	host := "server.example.com"
	originKind := x.Choose(3, "Origin")
	switch originKind {
	case 1:
		hdr["Origin"] = []string{"http://" + host}
	case 2:
		hdr["Origin"] = []string{"http://evil.example.org"}
	}
	req := &http.Request{Method: method, Header: hdr, Host: host, Proto: "HTTP/1.1", ProtoMajor: 1, ProtoMinor: 1, RequestURI: "/ws"}
	// ---- upgrader
	u := &websocket.Upgrader{}
	u.Subprotocols = c12ServerProtos[x.Choose(len(c12ServerProtos), "Upgrader.Subprotocols")]
	u.EnableCompression = x.Choose(2, "EnableCompression") == 1
	checkOrigin := x.Choose(3, "CheckOrigin")
	switch checkOrigin {
	case 1:
		u.CheckOrigin = func(*http.Request) bool { return true }
	case 2:
		u.CheckOrigin = func(*http.Request) bool { return false }
	}
	switch x.Choose(3, "buffers") {
	case 1:
		u.ReadBufferSize, u.WriteBufferSize = 1024, 1024
	case 2:
		u.WriteBufferPool = NewLogPool()
		u.WriteBufferSize = 64
	}
	if x.Choose(2, "HandshakeTimeout") == 1 {
		u.HandshakeTimeout = time.Hour
	}
	// ---- responseHeader
	var rh http.Header
	if bytePos >= 0 {
		b := byte(x.Pick(256, "byte"))
		v := []string{string([]byte{b}) + "tail", "he" + string([]byte{b}) + "ad", "end" + string([]byte{b})}[bytePos]
		rh = http.Header{"X-App": {v}}
		if x.Choose(2, "in-protocol-header") == 1 {
			rh = http.Header{"Sec-Websocket-Protocol": {v}}
		}
	} else {
		switch x.Choose(16, "responseHeader") {
		case 9: // application-supplied extension headers are documented as unsupported: whatever form they take,
			// the 101 (if any) must not announce what was not negotiated
			rh = http.Header{"Sec-Websocket-Extensions": {"permessage-deflate"}}
		case 10:
			rh = http.Header{"Sec-Websocket-Extensions": {"", "permessage-deflate; server_no_context_takeover; client_no_context_takeover"}}
		case 11:
			rh = http.Header{"Sec-Websocket-Extensions": {""}}
		case 12:
			rh = http.Header{"Sec-Websocket-Extensions": {}}
		case 13:
			rh = http.Header{"sec-websocket-extensions": {"permessage-deflate; server_no_context_takeover; client_no_context_takeover"}}
		case 14:
			rh = http.Header{"SEC-WEBSOCKET-EXTENSIONS": {"x-foo", "permessage-deflate"}}
		case 15:
			rh = http.Header{"sec-websocket-protocol": {"chat"}}
		case 8: // more header bytes than any internal buffer holds
			rh = http.Header{}
			for i := 0; i < 24; i++ {
				rh[fmt.Sprintf("X-Long-%02d", i)] = []string{strings.Repeat(string(rune('a'+i)), 300)}
			}
		case 1:
			rh = http.Header{"X-App": {"1"}}
		case 2:
			rh = http.Header{"X-App": {"1", "2"}, "Set-Cookie": {"a=b; Path=/", "c=d"}}
		case 3:
			rh = http.Header{"X-App": {"a\r\nSet-Cookie: evil=1"}}
		case 4:
			rh = http.Header{"Sec-Websocket-Protocol": {"chat"}}
		case 5:
			rh = http.Header{"Sec-Websocket-Protocol": {"chat\r\nSet-Cookie: evil=1"}}
		case 6:
			rh = http.Header{"X-App": {"a\nX-Evil: 1", "b\rc"}}
		case 7:
			rh = http.Header{"Sec-Websocket-Protocol": {"superchat"}, "X-App": {"v"}}
		}
	}
	// ---- run
	nc := netsim.NewConn(nil)
	w := newFakeRW(nc, 0, nil)
	conn, err := u.Upgrade(w, req, rh)
	x.NonTrivial()
	// ---- reference verdict
	v := hsref.ValidOpeningHandshake(hsref.Request{Method: method, Header: hdr, Host: host})
	originOK := true
	switch checkOrigin {
	case 0:
		originOK = originKind != 2
	case 2:
		originOK = false
	}
	x.Obs("valid=%v decided=%v problems=%v originOK=%v -> conn=%v err=%v status=%d hijacks=%d wire=%d", v.Valid, v.Decided, v.Problems, originOK, conn != nil, err, w.Status, w.Hijacks, len(nc.Out))
	key := func(what string) string { return "C12:" + what }
	// internal consistency, always
	x.Check((conn == nil) != (err == nil), key("conn-xor-err"), "Upgrade returned conn=%v err=%v", conn != nil, err)
	if conn == nil {
		_, isHE := err.(websocket.HandshakeError)
		x.Check(isHE, key("error-type"), "failed upgrade returned %T (%v), want HandshakeError", err, err)
		x.Check(w.Hijacks == 0, key("hijack-on-failure"), "connection hijacked although the upgrade failed: %v", err)
		x.Check(w.Status >= 400 && w.Status <= 599, key("no-error-status"), "failed upgrade replied with status %d", w.Status)
		x.Check(len(nc.Out) == 0, key("wrote-on-failure"), "failed upgrade wrote %d bytes to the connection", len(nc.Out))
	}
	appExt := false // Upgrade documents application-supplied extension headers as unsupported: refusing them is not a broken "iff"
	for k := range rh {
		if hsref.FoldASCII(k) == "sec-websocket-extensions" {
			appExt = true
		}
	}
	if v.Decided {
		wantOK := v.Valid && originOK
		if wantOK && appExt {
			// either outcome; the failure rules above and the announcement rule below still apply
		} else if wantOK {
			x.Check(conn != nil, key("valid-rejected"), "valid opening handshake rejected: %v (Connection=%q Upgrade=%q Version=%q Key=%q)", err, hdr["Connection"], hdr["Upgrade"], hdr["Sec-Websocket-Version"], hdr["Sec-Websocket-Key"])
		} else {
			x.Check(conn == nil, key("invalid-accepted:"+strings.Join(append(v.Problems, map[bool]string{true: "", false: "origin"}[originOK]), "+")), "invalid opening handshake accepted (problems %v, origin allowed %v): method=%s Connection=%q Upgrade=%q Version=%q Key=%q", v.Problems, originOK, method, hdr["Connection"], hdr["Upgrade"], hdr["Sec-Websocket-Version"], hdr["Sec-Websocket-Key"])
			if v.Valid && !originOK && !appExt { // with an unsupported application header there are two reasons to refuse
				x.Check(w.Status == 403, key("origin-status"), "origin refused with status %d, want 403", w.Status)
			}
			if originOK && len(v.Problems) == 1 && v.NoUpgradeToken {
				x.Check(w.Status == 426, key("upgrade-required-status"), "request lacking only the Upgrade token got status %d, want 426", w.Status)
				has, _ := hsref.ContainsToken(w.wroteHdr["Upgrade"], "websocket")
				x.Check(has, key("upgrade-required-header"), "426 reply lacks an Upgrade: websocket header (%v)", w.wroteHdr["Upgrade"])
			}
		}
	}
	if conn == nil {
		return
	}
	// ---- success: judge the 101 response
	x.Check(w.Hijacks == 1, key("hijack-count"), "Hijack called %d times", w.Hijacks)
	x.Check(w.Status == 0, key("status-on-rw"), "successful upgrade also wrote status %d through the ResponseWriter", w.Status)
	h := hsref.ParseHead(nc.Out)
	x.Check(len(h.Problems) == 0, key("response-malformed"), "101 response is malformed: %v (%q)", h.Problems, clip(nc.Out))
	x.Check(len(h.Rest) == 0, key("response-trailing"), "%d bytes follow the blank line of the 101 response", len(h.Rest))
	f := strings.SplitN(h.StartLine, " ", 3)
	x.Check(len(f) >= 2 && f[0] == "HTTP/1.1" && f[1] == "101", key("status-line"), "status line %q", h.StartLine)
	one := func(name string) string {
		vs := h.Get(name)
		x.Check(len(vs) == 1, key("header-count:"+name), "%d %s headers in the 101 response: %q", len(vs), name, vs)
		return vs[0]
	}
	x.Check(strings.EqualFold(one("Upgrade"), "websocket"), key("upgrade-header"), "Upgrade: %q", h.Get("Upgrade"))
	has, _ := hsref.ContainsToken(h.Get("Connection"), "upgrade")
	x.Check(has && len(h.Get("Connection")) == 1, key("connection-header"), "Connection: %q", h.Get("Connection"))
	keyv := hdr["Sec-Websocket-Key"]
	if v.Decided {
		x.Check(one("Sec-WebSocket-Accept") == hsref.AcceptKey(keyv[0]), key("accept-digest"), "Sec-WebSocket-Accept %q, want %q for key %q", h.Get("Sec-WebSocket-Accept"), hsref.AcceptKey(keyv[0]), keyv[0])
	}
	// subprotocol
	protos := h.Get("Sec-WebSocket-Protocol")
	x.Check(len(protos) <= 1, key("protocol-count"), "%d Sec-WebSocket-Protocol headers", len(protos))
	offered, _ := hsref.TokenList(offer)
	if u.Subprotocols != nil {
		if len(protos) == 1 {
			x.Check(inList(offered, protos[0]), key("protocol-not-offered"), "selected subprotocol %q was not offered (%q)", protos[0], offer)
			x.Check(inList(u.Subprotocols, protos[0]), key("protocol-not-supported"), "selected subprotocol %q is not in Upgrader.Subprotocols %q", protos[0], u.Subprotocols)
		}
		if len(protos) == 1 {
			x.Check(conn.Subprotocol() == protos[0], key("protocol-mismatch"), "Conn.Subprotocol()=%q, header %q", conn.Subprotocol(), protos[0])
		}
	}
	// compression
	exts, wf := hsref.ParseExtensions(extOffer)
	offeredDeflate := false
	for _, e := range exts {
		if e.Name == "permessage-deflate" {
			offeredDeflate = true
		}
	}
	annExts, _ := hsref.ParseExtensions(h.Get("Sec-WebSocket-Extensions"))
	announced := false
	for _, e := range annExts {
		if e.Name == "permessage-deflate" {
			announced = true
		}
	}
	if announced {
		x.Check(hsref.NamesExtensionOutsideQuotes(extOffer, "permessage-deflate"), key("deflate-announced-not-offered"), "permessage-deflate announced although the offer names it only inside a quoted string (or not at all): %q", extOffer)
	}
	if wf {
		// "only if": a server may decline an offer; it must not announce what was not offered or enabled
		x.Check(!announced || (offeredDeflate && u.EnableCompression), key("deflate-announcement"), "permessage-deflate announced=%v, offered=%v enabled=%v (offer %q)", announced, offeredDeflate, u.EnableCompression, extOffer)
		if len(extOffer) == 1 && extOffer[0] == "permessage-deflate" && u.EnableCompression {
			x.Check(announced, key("plain-offer-declined"), "plain permessage-deflate offer to an Upgrader with EnableCompression not announced")
		}
	} else {
		x.Check(!announced || u.EnableCompression, key("deflate-announcement"), "permessage-deflate announced although disabled")
	}
	// injection: every line is a protocol header or an application-supplied key with exactly the supplied (neutralised) values
	protocolOwned := map[string]bool{"upgrade": true, "connection": true, "sec-websocket-accept": true, "sec-websocket-protocol": true, "sec-websocket-extensions": true}
	supplied := map[string][]string{}
	for k, vs := range rh {
		for _, val := range vs {
			supplied[strings.ToLower(k)] = append(supplied[strings.ToLower(k)], neutral(val))
		}
	}
	got := map[string][]string{}
	for _, l := range h.Lines {
		n := strings.ToLower(l[0])
		if protocolOwned[n] {
			continue
		}
		_, ok := supplied[n]
		x.Check(ok, key("injected-header"), "101 response contains header line %q: %q that neither the protocol nor the application supplied under that name", l[0], l[1])
		got[n] = append(got[n], neutral(l[1]))
	}
	for n, want := range supplied {
		if protocolOwned[n] {
			continue
		}
		g := got[n]
		sort.Strings(g)
		w2 := append([]string{}, want...)
		sort.Strings(w2)
		x.Check(fmt.Sprint(g) == fmt.Sprint(w2), key("app-header-values"), "header %q: wire values %q, supplied %q", n, g, w2)
	}
	if ps, ok := rh["Sec-Websocket-Protocol"]; ok && u.Subprotocols == nil && len(protos) == 1 {
		x.Check(neutral(protos[0]) == neutral(ps[0]), key("app-protocol-value"), "application-supplied subprotocol %q appears as %q", ps[0], protos[0])
	}
}

func clip(b []byte) string {
	if len(b) > 300 {
		b = b[:300]
	}
	return string(b)
}

func inList(l []string, s string) bool {
	for _, v := range l {
		if v == s {
			return true
		}
	}
	return false
}

// neutral maps control bytes to spaces and trims OWS (what "neutralised" means for comparison).
func neutral(v string) string {
	b := []byte(v)
	for i, c := range b {
		if c < 32 || c == 127 {
			b[i] = ' '
		}
	}
	return strings.Trim(string(b), " \t")
}
