//go:build verif

package checks

import (
	"bytes"
	"context"
	"fmt"
	"net"
	"net/http"
	"time"

	"github.com/gorilla/websocket"
	"verif.local/engine/explore"
	"verif.local/ref/hsref"
	"verif.local/ref/netsim"
	"verif.local/ref/wsref"
)

func init() {
	Register(&Check{
		ID:          "C17",
		Technique:   "complete enumeration of (frame stream, split point between hijacked buffer and socket, ReadBufferSize, hijacked reader size, socket chunking) on the real Upgrader, and of every two-chunk split of '101 response + frames' on the real Dialer; oracle = the stream's messages per the independent decoder",
		Rule:        "server cells = {11 stream shapes, two of them with 64 KiB frames (split points around the header only) and two with maximal control frames} x {ReadBufferSize 0,1,64,100,256,1024} x {hijacked bufio.Reader size 16,128,256,257,4096} x {every k in 0..min(len,size)} x {socket chunking all / 1-byte}; client cells = {shapes} x {ReadBufferSize 0,125,1024} x {every split of response+frames, 1-byte chunking}; complete product. The hijacked bufio.Reader is layered over the same connection object Hijack returns, as net/http does. non-trivial = k > 0; distinct by observation hash",
		Assumptions: []string{"how the bytes get to the Conn (reuse / wrapper / copy) is not constrained"},
		Budget:      map[string]time.Duration{"quick": 100 * time.Second, "thorough": 15 * time.Minute},
		Bound:       map[string]string{"quick": "complete product over 11 shapes", "thorough": "complete product over 10 shapes, socket chunkings {all,1,2,7}"},
		Scenarios:   c17Scenarios,
	})
}

func c17Scenarios(tier string) []*explore.Scenario {
	var scs []*explore.Scenario
	for _, sh := range c17Shapes(tier) {
		for _, rbs := range []int{0, 1, 64, 100, 256, 1024} {
			for _, hs := range []int{16, 128, 256, 257, 4096} {
				sh, rbs, hs := sh, rbs, hs
				scs = append(scs, &explore.Scenario{Name: fmt.Sprintf("c17/server/%s/rbs=%d/hijacked=%d", sh.name, rbs, hs), Bound: 0, Body: func(x *explore.Ctx) { c17Server(x, sh, rbs, hs, tier) }})
			}
		}
		for _, rbs := range []int{0, 125, 1024} {
			sh, rbs := sh, rbs
			scs = append(scs, &explore.Scenario{Name: fmt.Sprintf("c17/client/%s/rbs=%d", sh.name, rbs), Bound: 0, Body: func(x *explore.Ctx) { c17Client(x, sh, rbs) }})
		}
	}
	return scs
}

// c17Shapes: the stream shapes of C05 plus streams with maximal control frames (a connection reader
// smaller than a control frame must not be possible whatever path the early bytes take).
func c17Shapes(tier string) []c05Shape {
	k := maskKeys[3]
	fr := func(masked bool, op byte, fin bool, p []byte) wsref.Frame {
		return wsref.Frame{Fin: fin, Opcode: op, Masked: masked, Key: k, Payload: p}
	}
	shapes := c05Shapes(tier)
	shapes = append(shapes,
		c05Shape{name: "text+ping125+text", build: func(m bool) []wsref.Frame {
			return []wsref.Frame{fr(m, 1, true, []byte("first")), fr(m, 9, true, Pattern(4, 125)), fr(m, 1, true, []byte("second"))}
		}},
		c05Shape{name: "pong101+frag+ping17", build: func(m bool) []wsref.Frame {
			return []wsref.Frame{fr(m, 10, true, Pattern(4, 101)), fr(m, 2, false, Pattern(0, 20)), fr(m, 9, true, Pattern(4, 17)), fr(m, 0, true, Pattern(0, 3))}
		}},
	)
	return shapes
}

func c17Expect(stream []byte, sender wsref.Role, deflate bool) []wsref.Message {
	d, err := wsref.DecodeStrict(stream, wsref.StrictOpts{Sender: sender, Deflate: deflate})
	if err != nil {
		panic("c17: bad generator stream: " + err.Error())
	}
	return d.Data()
}

func c17Server(x *explore.Ctx, sh c05Shape, rbs, hs int, tier string) {
	stream := wsref.EncodeAll(sh.build(true))
	want := c17Expect(stream, wsref.Client, sh.deflate)
	maxk := len(stream)
	if maxk > hs {
		maxk = hs
	}
	var k int
	chunkings := []int{0, 1}
	if tier == "thorough" {
		chunkings = []int{0, 1, 2, 7}
	}
	if sh.sparse {
		// 64 KiB frames: split points around the header only, no 1-byte socket delivery
		var ks []int
		for _, v := range []int{0, 1, 2, 3, 4, 9, 10, 11, 13, 14, 15, hs - 1, hs} {
			if v <= maxk && (len(ks) == 0 || v > ks[len(ks)-1]) {
				ks = append(ks, v)
			}
		}
		k = ks[x.Pick(len(ks), "k")]
		chunkings = []int{0, 4096}
	} else {
		k = x.Pick(maxk+1, "k")
	}
	sockChunk := chunkings[x.Pick(len(chunkings), "socket-chunking")]
	nc := netsim.NewConn(stream)
	nc.NoReadLog = true
	nc.Chunk = func(c *netsim.Conn, wantN, avail int) int {
		if c.ReadPos() < k {
			return k - c.ReadPos()
		}
		if sockChunk > 0 {
			return sockChunk
		}
		return avail
	}
	w := newFakeRW(nc, hs, nil)
	if k > 0 {
		// net/http has already read the request and, with it, the first k bytes of what follows
		if _, err := w.BR.Peek(1); err != nil {
			panic(err)
		}
		if w.BR.Buffered() != k {
			panic(fmt.Sprintf("c17: preload %d != k %d", w.BR.Buffered(), k))
		}
		x.NonTrivial()
	}
	hdr := http.Header{"Connection": {"Upgrade"}, "Upgrade": {"websocket"}, "Sec-Websocket-Version": {"13"}, "Sec-Websocket-Key": {b64n(16)}}
	if sh.deflate {
		hdr["Sec-Websocket-Extensions"] = []string{"permessage-deflate; server_no_context_takeover; client_no_context_takeover"}
	}
	req := &http.Request{Method: "GET", Header: hdr, Host: "h", Proto: "HTTP/1.1", ProtoMajor: 1, ProtoMinor: 1}
	u := &websocket.Upgrader{ReadBufferSize: rbs, EnableCompression: sh.deflate}
	conn, err := u.Upgrade(w, req, nil)
	if err != nil {
		x.Failf("C17:upgrade-failed", "Upgrade failed: %v", err)
	}
	// optionally a second upgrade (with its own early frame) happens before the first
	// connection is read: the two must not share what was buffered
	var conn2 *websocket.Conn
	if x.Pick(2, "second-upgrade-before-reading") == 1 {
		other := wsref.Encode(wsref.Frame{Fin: true, Opcode: wsref.OpText, Masked: true, Key: maskKeys[0], Payload: []byte("other connection")})
		nc2 := netsim.NewConn(other)
		nc2.NoReadLog = true
		w2 := newFakeRW(nc2, hs, nil)
		w2.BR.Peek(1)
		req2 := &http.Request{Method: "GET", Header: hdr.Clone(), Host: "h", Proto: "HTTP/1.1", ProtoMajor: 1, ProtoMinor: 1}
		conn2, err = u.Upgrade(w2, req2, nil)
		if err != nil {
			x.Failf("C17:upgrade-failed", "second Upgrade failed: %v", err)
		}
	}
	rr := ReadAllMessages(conn, x.Pick(2, "readprog"), 3, len(want)+2)
	if conn2 != nil {
		r2 := ReadAllMessages(conn2, 0, 3, 3)
		x.Check(len(r2.Msgs) == 1 && string(r2.Msgs[0].Payload) == "other connection", "C17:server-lost-bytes-second-upgrade", "second upgraded connection delivered %s (then %v), want its own frame", fmtMsgs(r2.Msgs), r2.Err)
	}
	x.Obs("k=%d delivered=%s err=%v", k, fmtMsgs(rr.Msgs), rr.Err)
	x.Check(msgsEqual(rr.Msgs, want), fmt.Sprintf("C17:server-lost-bytes:reuse=%v", rbs == 0 && hs > 256), "server side, k=%d of %d bytes pre-buffered (hijacked reader %d, ReadBufferSize %d, socket chunk %d): delivered %s (then %v), stream encodes %s", k, len(stream), hs, rbs, sockChunk, fmtMsgs(rr.Msgs), rr.Err, fmtMsgs(want))
}

func c17Client(x *explore.Ctx, sh c05Shape, rbs int) {
	stream := wsref.EncodeAll(sh.build(false))
	want := c17Expect(stream, wsref.Server, sh.deflate)
	mode := x.Pick(2, "delivery")
	split := -1
	// one Dial, or two Dials whose connections are read only afterwards (state shared between
	// the dials of one process must not mix up what arrived with each handshake)
	ndials := 1 + x.Pick(2, "second-dial-before-reading")
	other := wsref.EncodeAll([]wsref.Frame{{Fin: true, Opcode: wsref.OpText, Payload: []byte("other connection")}})
	var conns []*websocket.Conn
	for di := 0; di < ndials; di++ {
		di := di
		nc := netsim.NewConn(nil)
		nc.NoReadLog = true
		var reply []byte
		nc.Extra = func(c *netsim.Conn) []byte {
			if reply != nil {
				return nil
			}
			i := bytes.Index(c.Out, []byte("\r\n\r\n"))
			if i < 0 {
				return nil
			}
			h := hsref.ParseHead(c.Out)
			var b bytes.Buffer
			fmt.Fprintf(&b, "HTTP/1.1 101 Switching Protocols\r\nUpgrade: websocket\r\nConnection: Upgrade\r\nSec-WebSocket-Accept: %s\r\n", hsref.AcceptKey(h.Get("Sec-WebSocket-Key")[0]))
			if sh.deflate {
				b.WriteString("Sec-WebSocket-Extensions: permessage-deflate; server_no_context_takeover; client_no_context_takeover\r\n")
			}
			b.WriteString("\r\n")
			if di == 0 {
				b.Write(stream)
			} else {
				b.Write(other)
			}
			reply = b.Bytes()
			if mode == 0 && di == 0 && sh.sparse {
				// 64 KiB frames: split points inside the response head, around its end and around
				// the first frame header only
				hl := len(reply) - len(stream)
				var ss []int
				for v := 0; v <= hl+20 && v <= len(reply); v++ {
					ss = append(ss, v)
				}
				ss = append(ss, hl+4096, hl+4097, len(reply)-1, len(reply))
				split = ss[x.Pick(len(ss), "split")]
				c.Chunk = netsim.ChunkSplitAt(split)
			} else if mode == 1 && sh.sparse {
				c.Chunk = netsim.ChunkFixed(4093)
			} else if mode == 0 && di == 0 {
				split = x.Pick(len(reply)+1, "split")
				c.Chunk = netsim.ChunkSplitAt(split)
			} else if mode == 1 {
				c.Chunk = netsim.ChunkFixed(1)
			}
			return reply
		}
		d := &websocket.Dialer{ReadBufferSize: rbs, EnableCompression: sh.deflate, NetDialContext: func(ctx context.Context, network, addr string) (net.Conn, error) { return nc, nil }}
		conn, _, err := d.Dial("ws://example.com/", nil)
		if err != nil {
			x.Failf("C17:dial-failed", "Dial failed: %v", err)
		}
		conns = append(conns, conn)
	}
	x.NonTrivial()
	rr := ReadAllMessages(conns[0], x.Pick(2, "readprog"), 3, len(want)+2)
	x.Obs("split=%d dials=%d delivered=%s err=%v", split, ndials, fmtMsgs(rr.Msgs), rr.Err)
	x.Check(msgsEqual(rr.Msgs, want), "C17:client-lost-bytes", "client side, response+frames split at %d (mode %d, ReadBufferSize %d, %d dials): delivered %s (then %v), stream encodes %s", split, mode, rbs, ndials, fmtMsgs(rr.Msgs), rr.Err, fmtMsgs(want))
	if ndials == 2 {
		r2 := ReadAllMessages(conns[1], 0, 3, 3)
		x.Check(len(r2.Msgs) == 1 && string(r2.Msgs[0].Payload) == "other connection", "C17:client-lost-bytes-second-dial", "second connection delivered %s (then %v), want its own frame", fmtMsgs(r2.Msgs), r2.Err)
	}
}
