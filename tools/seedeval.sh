#!/bin/bash
# usage: tools/seedeval.sh <dir with patch.diff + seed_demo_test.go> <check ids...>
# Confirms a seeded change independently (scratch copy of /repo HEAD): demo passes without the patch, the patch applies,
# the repository's own tests still pass with it (3 tries, flaky TLS/proxy tests), the demo fails with it; then runs the checks.
export GOFLAGS=-mod=mod GOPROXY=off GOSUMDB=off GOTOOLCHAIN=local
src="$(readlink -f "$1")"; shift
S=$(mktemp -d /tmp/seedeval.XXXXXX); trap 'rm -rf "$S"' EXIT
git -C /repo archive HEAD | tar -x -C "$S"
cp "$src/seed_demo_test.go" "$S/"
racef=""; grep -qiE -- '-race' "$src/NOTES.md" 2>/dev/null && racef="-race"
( cd "$S" && go test -vet=off -count=1 $racef -run 'TestSeedDemo' . > "$S/demo0.log" 2>&1 ) && echo "demo-without-change: PASS" || { echo "demo-without-change: FAIL (bad seed)"; tail -5 "$S/demo0.log"; }
( cd "$S" && git init -q && git apply "$src/patch.diff" ) || { echo "PATCH-FAILED"; exit 3; }
ok=0
[ -n "${SKIP_CONFIRM:-}" ] && ok=2
for try in 1 2 3; do
  [ $ok = 2 ] && break
  if ( cd "$S" && go test -vet=off -count=1 -skip 'TestSeedDemo' . > "$S/test.log" 2>&1 ); then ok=1; break; fi
  grep -- '--- FAIL' "$S/test.log" | sort > "$S/fail.$try"
done
if [ $ok = 2 ]; then echo "repo-tests-with-change: (not re-run)"; elif [ $ok = 1 ]; then echo "repo-tests-with-change: PASS"; else
  common=$(comm -12 "$S/fail.1" "$S/fail.2" | comm -12 - "$S/fail.3")
  if [ -z "$common" ]; then echo "repo-tests-with-change: PASS (only flaky TLS/proxy failures, different each run)";
  elif ! echo "$common" | grep -vqE 'Proxy|TLS' && ! grep -qE '^\+\+\+ b/(client|proxy|tls_handshake|url)' "$src/patch.diff" && \
       ( cd "$S" && go test -vet=off -count=1 -skip 'TestSeedDemo|Proxy|TLS' . > "$S/test.log" 2>&1 ); then
    echo "repo-tests-with-change: PASS apart from the load-sensitive TLS/proxy dial tests, (the change does not touch the dial path)"
  else echo "repo-tests-with-change: FAIL consistently: $common"; fi
fi
( cd "$S" && go test -vet=off -count=1 $racef -run 'TestSeedDemo' . > "$S/demo1.log" 2>&1 ) && echo "demo-with-change: PASS (bad seed: should fail)" || { echo "demo-with-change: FAIL (as intended)"; grep -m3 -E 'seed_demo_test.go|DATA RACE' "$S/demo1.log"; }
rm -f "$S/seed_demo_test.go"
for id in "$@"; do
  out=$(VERIF_REPO="$S" VERIF_SCRATCH_OUT="$S/out" /verif/run "$id" ${TIER:-quick} 2>&1)
  if echo "$out" | grep -q '^VIOLATION'; then
    echo "CAUGHT by $id: $(echo "$out" | grep -m1 'key:') | $(echo "$out" | grep -m1 'what:' | cut -c1-220)"
  else
    echo "MISSED by $id: $(echo "$out" | tail -1 | cut -c1-200)"
  fi
done
