//go:build verif

package checks

import (
	"context"
	"crypto/tls"
	"encoding/base64"
	"fmt"
	"net"
	"net/http"
	"net/url"
	"strings"
	"time"

	"verif.local/engine/explore"
	"verif.local/ref/netsim"
)

func init() {
	Register(&Check{
		ID:          "C18",
		Technique:   "complete enumeration of the dial configuration matrix on the real Dialer against in-process HTTP/HTTPS CONNECT proxies, a SOCKS5 server and TLS back-ends (deterministic synchronous pipes); every peer logs what it saw",
		Rule:        "cells = {no proxy, http, https, socks5} x {ws, wss} x {subsets of NetDial / NetDialContext / NetDialTLSContext that do not need the real network} x {proxy credentials none | user | user:password | user with a set but empty password} x {backend certificate valid | other host | untrusted CA} x {URL host: name, name:port, IPv4, [::1], [::1]:port} x {proxy replies 200, 200 without reason, 407 with/without reason, 502, garbage, EOF}; complete product (irrelevant combinations collapsed). non-trivial = at least one hook dial and a non-default cell; distinct by observation hash",
		Assumptions: []string{"cells without any dial hook use the default net.Dialer: they are enumerated on real loopback TCP listeners (family loopback); the in-memory family covers every combination of hooks", "SOCKS5 with a user name but no (or an empty) password is a don't-care (x/net refuses it)", "crypto/tls and x/net/proxy are trusted"},
		Budget:      map[string]time.Duration{"quick": 100 * time.Second, "thorough": 15 * time.Minute},
		Bound:       map[string]string{"quick": "complete product", "thorough": "complete product (same cells; thorough adds nothing here)"},
		Scenarios:   c18Scenarios,
	})
}

var c18Proxies = []string{"", "http://proxy.example:3128", "https://proxy.example:3129", "socks5://proxy.example:1080", "http://proxy.example", "https://proxy.example"}
var c18Hosts = []string{"backend.example", "backend.example:8443", "192.0.2.7", "[::1]", "[::1]:9000", "backend.example:80", "backend.example:443"}
var c18ProxyReplies = []string{"", "200", "407 Proxy Authentication Required", "407", "502 Bad Gateway", "garbage", "eof", "200 OK", "403 ", "204 No Content", "201 Created", "299 Whatever", "100 Continue"}

func c18Scenarios(tier string) []*explore.Scenario {
	var scs []*explore.Scenario
	for pi := range c18Proxies {
		for _, secure := range []bool{false, true} {
			for hi := range c18Hosts {
				pi, secure, hi := pi, secure, hi
				scs = append(scs, &explore.Scenario{Name: fmt.Sprintf("c18/proxy=%d/secure=%v/host=%d", pi, secure, hi), Bound: 0, Body: func(x *explore.Ctx) { c18Body(x, pi, secure, hi) }})
			}
		}
	}
	for _, ps := range []string{"", "http", "https", "socks5"} {
		for _, secure := range []bool{false, true} {
			ps, secure := ps, secure
			scs = append(scs, &explore.Scenario{Name: fmt.Sprintf("c18/loopback/proxy=%s/secure=%v", ps, secure), Bound: 0, Body: func(x *explore.Ctx) { c18Loopback(x, ps, secure) }})
		}
	}
	return scs
}

// c18Loopback: the cells without any dial hook (default net.Dialer) on real loopback TCP.
func c18Loopback(x *explore.Ctx, proxyScheme string, secure bool) {
	o := backendOpts{}
	if proxyScheme != "" {
		o.creds = []string{"", "user", "user:pa:ss", "user:"}[x.Pick(4, "proxy-credentials")]
	}
	certKind := 0
	if secure {
		certKind = x.Pick(3, "backend-certificate")
		switch certKind {
		case 1:
			o.certHost = "other.example"
		case 2:
			o.untrusted = true
		}
	}
	if strings.HasPrefix(proxyScheme, "http") {
		o.proxyResp = []string{"", "407 Proxy Authentication Required", "407"}[x.Pick(3, "proxy-reply")]
	}
	n := newSimNet()
	d, urlStr, backendAddr := n.setupLoopback(proxyScheme, secure, o)
	d.HandshakeTimeout = 10 * time.Second
	conn, _, err := d.Dial(urlStr, nil)
	if conn != nil {
		conn.Close()
	}
	n.Finish()
	x.NonTrivial()
	log := n.Log.Snapshot()
	// ports differ from run to run: observations are normalised
	norm := strings.NewReplacer(backendAddr, "BACKEND").Replace(fmt.Sprint(log))
	x.Obs("proxy=%s secure=%v creds=%q cert=%d reply=%q -> ok=%v peers=%s", proxyScheme, secure, o.creds, certKind, o.proxyResp, conn != nil, norm)
	x.Logf("err=%v", err)
	key := func(what string) string {
		return fmt.Sprintf("C18:loopback-%s:proxy=%s:secure=%v", what, proxyScheme, secure)
	}
	socksUserOnly := proxyScheme == "socks5" && (o.creds == "user" || o.creds == "user:")
	if socksUserOnly {
		return
	}
	wantOK := certKind == 0 && o.proxyResp == ""
	x.Check((conn != nil) == wantOK, key("outcome"), "dial result ok=%v (err %v), want ok=%v (peers %v)", conn != nil, err, wantOK, log)
	x.Check(!n.Log.Has("net: BACKEND-DIALED-DIRECTLY"), key("proxy-bypassed"), "backend dialed directly although a proxy is configured")
	switch proxyScheme {
	case "http", "https":
		x.Check(n.Log.Count("proxy: request ") == 1 && n.Log.Has("proxy: request CONNECT "+backendAddr+" HTTP/1.1"), key("connect-request"), "proxy saw %v, want one CONNECT %s", filter(log, "proxy: request"), backendAddr)
		_, _, has := strings.Cut(o.creds, ":")
		x.Check((n.Log.Count("proxy: proxy-authorization") == 1) == has, key("proxy-auth"), "Proxy-Authorization %v with credentials %q", filter(log, "proxy: proxy-authorization"), o.creds)
	case "socks5":
		x.Check(n.Log.Has("proxy: connect cmd=1 "+backendAddr), key("socks-connect"), "SOCKS5 server saw %v", filter(log, "proxy: connect"))
	}
	if secure {
		x.Check(!n.Log.Has("backend: PLAINTEXT-ON-TLS-PORT"), key("plaintext-to-wss"), "backend of a wss URL received plaintext first")
		if certKind != 0 {
			x.Check(!n.Log.Has("backend: ws-request"), key("request-sent-unverified"), "WebSocket request sent although the backend certificate does not verify")
		}
	}
}

func c18Body(x *explore.Ctx, pi int, secure bool, hi int) {
	proxy := c18Proxies[pi]
	scheme := map[bool]string{false: "ws", true: "wss"}[secure]
	urlStr := scheme + "://" + c18Hosts[hi] + "/ws"
	hooks := x.Pick(8, "hooks(NetDial|NetDialContext|NetDialTLSContext)")
	useNetDial, useCtx, useTLS := hooks&1 != 0, hooks&2 != 0, hooks&4 != 0
	firstHopTLS := (proxy == "" && secure) || strings.HasPrefix(proxy, "https")
	if !useNetDial && !useCtx && !(firstHopTLS && useTLS) {
		return // would need the real network
	}
	o := backendOpts{}
	if proxy != "" {
		o.creds = []string{"", "user", "user:pa:ss", "u@s er:p w/%2F", "user:"}[x.Pick(5, "proxy-credentials")]
	}
	certKind := 0
	if secure {
		certKind = x.Pick(3, "backend-certificate")
		switch certKind {
		case 1:
			o.certHost = "other.example"
		case 2:
			o.untrusted = true
		}
	}
	if strings.HasPrefix(proxy, "http") {
		o.proxyResp = c18ProxyReplies[x.Pick(len(c18ProxyReplies), "proxy-reply")]
	}
	n := newSimNet()
	p := dialPath{name: "cell", url: urlStr, proxy: proxy, tlsHop1: firstHopTLS}
	d := n.setupPath(p, o)
	pki := netsim.TestPKI()
	if useNetDial {
		d.NetDial = n.NetDial
	}
	if useCtx {
		d.NetDialContext = n.NetDialContext
	}
	u, _ := url.Parse(urlStr)
	if useTLS {
		d.NetDialTLSContext = func(ctx context.Context, network, addr string) (net.Conn, error) {
			c, err := n.dial("NetDialTLSContext", addr)
			if err != nil {
				return nil, err
			}
			// the hook is trusted to do TLS itself
			host, _, _ := net.SplitHostPort(addr)
			tc := tls.Client(c, &tls.Config{RootCAs: pki.Roots, ServerName: host})
			if err := tc.HandshakeContext(ctx); err != nil {
				c.Close()
				return nil, err
			}
			return tc, nil
		}
	}
	d.HandshakeTimeout = time.Hour
	// without a TLSClientConfig the library must still do TLS wherever the path demands it; the
	// simulated peers' certificates then do not verify (the test CA is not a system root), so such
	// a dial fails - but never by sending anything in the clear
	noTLSConfig := (secure || firstHopTLS) && x.Pick(2, "TLSClientConfig=nil") == 1
	if noTLSConfig {
		d.TLSClientConfig = nil
	}
	var reqHdr http.Header
	if x.Pick(2, "caller-Host-override") == 1 {
		// a Host header override changes the Host header only: dial target, CONNECT target and
		// the name the certificate is verified for stay those of the URL
		reqHdr = http.Header{"Host": {"override.example"}}
	}
	conn, _, err := d.Dial(urlStr, reqHdr)
	if conn != nil {
		conn.Close()
	}
	n.Finish()
	x.NonTrivial()
	log := n.Log.Snapshot()
	x.Obs("url=%s proxy=%s hooks=%d creds=%q cert=%d reply=%q -> ok=%v dials=%v peers=%v", urlStr, proxy, hooks, o.creds, certKind, o.proxyResp, conn != nil, n.Dials, log)
	x.Logf("err=%v", err)
	key := func(what string) string {
		pk := "none"
		if proxy != "" {
			pk = proxy[:strings.Index(proxy, ":")]
		}
		return fmt.Sprintf("C18:%s:proxy=%s:secure=%v", what, pk, secure)
	}
	// ---- expectations
	port := u.Port()
	if port == "" {
		port = map[bool]string{false: "80", true: "443"}[secure]
	}
	hostOnly := u.Hostname()
	if strings.Contains(hostOnly, ":") {
		hostOnly = "[" + hostOnly + "]"
	}
	target := hostOnly + ":" + port
	socksUserOnly := strings.HasPrefix(proxy, "socks5") && (o.creds == "user" || o.creds == "user:")
	if noTLSConfig {
		x.Check((conn == nil) == (err != nil), key("conn-xor-err"), "conn=%v err=%v", conn != nil, err)
		x.Check(!n.Log.Has("backend: PLAINTEXT-ON-TLS-PORT") && !n.Log.Has("proxy: PLAINTEXT-ON-TLS-PORT"), key("plaintext-to-wss"), "TLSClientConfig nil: a TLS endpoint received plaintext first: %v", log)
		if secure && !(proxy == "" && useTLS) {
			// the library itself is in charge of TLS towards the backend and cannot verify it
			x.Check(conn == nil, key("unverified-backend-accepted"), "TLSClientConfig nil: dial succeeded although the backend's certificate is not signed by a system root")
			x.Check(!n.Log.Has("backend: ws-request"), key("request-sent-unverified"), "TLSClientConfig nil: WebSocket request reached the backend although its certificate cannot be verified: %v", log)
		}
		x.Check(!n.Log.Has("net: BACKEND-DIALED-DIRECTLY") || proxy == "", key("proxy-bypassed"), "backend dialed directly although a proxy is configured")
		return
	}
	if o.proxyResp == "100 Continue" {
		// an interim response is not a final status: either outcome, only consistency
		x.Check((conn == nil) == (err != nil), key("conn-xor-err"), "conn=%v err=%v", conn != nil, err)
		return
	}
	proxyRefuses := o.proxyResp != "" && !strings.HasPrefix(o.proxyResp, "200")
	wantOK := certKind == 0 && !proxyRefuses && !socksUserOnly
	if socksUserOnly {
		// don't-care: only consistency
		x.Check((conn == nil) == (err != nil), key("conn-xor-err"), "conn=%v err=%v", conn != nil, err)
		return
	}
	if wantOK {
		x.Check(conn != nil, key("valid-path-failed"), "dial failed on a valid path: %v (dials %v, peers %v)", err, n.Dials, log)
	} else {
		x.Check(conn == nil && err != nil, key("invalid-path-succeeded"), "dial succeeded although cert=%d proxy reply=%q", certKind, o.proxyResp)
	}
	// 1. first hop through the applicable hook, to the right address
	wantHook := "NetDial"
	if useCtx {
		wantHook = "NetDialContext"
	}
	if firstHopTLS && useTLS {
		wantHook = "NetDialTLSContext"
	}
	firstAddr := target
	if proxy != "" {
		pu, _ := url.Parse(proxy)
		firstAddr = pu.Host
		if pu.Port() == "" {
			firstAddr = pu.Host + map[string]string{"http": ":80", "https": ":443", "socks5": ":1080"}[pu.Scheme]
		}
	}
	x.Check(len(n.Dials) == 1 && n.Dials[0] == wantHook+" "+firstAddr, key("first-hop"), "hook dial log %v, want exactly [%s %s]", n.Dials, wantHook, firstAddr)
	x.Check(!n.Log.Has("net: BACKEND-DIALED-DIRECTLY"), key("proxy-bypassed"), "backend dialed directly although a proxy is configured")
	// 2./3. what the proxy saw
	switch {
	case strings.HasPrefix(proxy, "http"):
		x.Check(n.Log.Count("proxy: request ") == 1 && n.Log.Has("proxy: request CONNECT "+target+" HTTP/1.1"), key("connect-request"), "proxy saw %v, want exactly one CONNECT %s", filter(log, "proxy: request"), target)
		wantAuth := ""
		if user, pw, has := strings.Cut(o.creds, ":"); has {
			wantAuth = "Basic " + base64.StdEncoding.EncodeToString([]byte(user+":"+pw))
		}
		got := filter(log, "proxy: proxy-authorization ")
		if wantAuth == "" {
			x.Check(len(got) == 0, key("proxy-auth-unexpected"), "Proxy-Authorization sent without a password in the proxy URL (%q): %v", o.creds, got)
		} else {
			x.Check(len(got) == 1 && got[0] == "proxy: proxy-authorization "+wantAuth, key("proxy-auth"), "Proxy-Authorization %v, want %q", got, wantAuth)
		}
		if proxyRefuses {
			x.Check(!n.Log.Has("proxy: BYTES-AFTER-REFUSAL") && !n.Log.Has("backend:"), key("sent-after-refusal"), "bytes were sent on after the proxy refused: %v", log)
		}
	case strings.HasPrefix(proxy, "socks5"):
		x.Check(n.Log.Count("proxy: connect ") == 1 && n.Log.Has("proxy: connect cmd=1 "+target), key("socks-connect"), "SOCKS5 server saw %v, want one CONNECT to %s", filter(log, "proxy: connect"), target)
		if o.creds == "" {
			x.Check(n.Log.Has("proxy: noauth"), key("socks-auth"), "SOCKS5 auth used without credentials: %v", log)
		} else {
			x.Check(n.Log.Has("proxy: auth "+o.creds), key("socks-auth"), "SOCKS5 username/password sub-negotiation missing or wrong: %v", filter(log, "proxy: auth"))
		}
	}
	// 5. TLS towards the backend
	if secure {
		x.Check(!n.Log.Has("backend: PLAINTEXT-ON-TLS-PORT"), key("plaintext-to-wss"), "backend of a wss URL received plaintext first: %v", log)
		if certKind != 0 {
			x.Check(!n.Log.Has("backend: ws-request"), key("request-sent-unverified"), "WebSocket request sent although the backend certificate does not verify (%d): %v", certKind, log)
		} else if wantOK {
			x.Check(n.Log.Has("backend: tls-established sni="+sniOf(u.Hostname())), key("sni"), "backend TLS session: %v, want SNI %q", filter(log, "backend: tls"), sniOf(u.Hostname()))
			x.Check(n.Log.Has("backend: ws-request GET /ws HTTP/1.1"), key("no-ws-request"), "backend saw %v", filter(log, "backend:"))
		}
	} else {
		x.Check(!n.Log.Has("backend: TLS-ON-PLAIN-PORT"), key("tls-to-ws"), "backend of a ws URL received TLS")
		if wantOK {
			x.Check(n.Log.Has("backend: ws-request GET /ws HTTP/1.1"), key("no-ws-request"), "backend saw %v", filter(log, "backend:"))
		}
	}
}

func sniOf(host string) string {
	if net.ParseIP(host) != nil {
		return "" // IP literals are not sent as SNI
	}
	return host
}

func filter(l []string, prefix string) []string {
	var r []string
	for _, s := range l {
		if strings.HasPrefix(s, prefix) {
			r = append(r, s)
		}
	}
	return r
}
