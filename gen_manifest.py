#!/usr/bin/env python3
"""Regenerates MANIFEST.json from the table below (kept in one place so it stays valid)."""
import json
CLAIMED = {
 "C19": dict(tech="model checking: exhaustive deviation-bounded enumeration of send sequences of one PreparedMessage over 24 connection kinds (sequential) plus preemption-bounded scheduler exploration, in plain and -race builds, of concurrent sends colliding on one cached frame",
             text="Every send is decoded by the independent decoder in the peer role: type and creation-time payload (also after the caller overwrote its slice), MASK per role, RSV1 iff negotiated and enabled at call time, equal to a WriteMessage twin; prepared close obeys the close rules; oversized prepared control messages refused at creation; concurrent sends race-free with intact frames.",
             note="compression level is not observable on the wire beyond decodability", ref="§4 C19"),
 "C09": dict(tech="stateless model checking of the implementation under a controlled scheduler: preemption-bounded enumeration of all interleavings of a writer program, a closer (6 paths) and a WriteControl caller, scheduling points at every channel/mutex/transport operation (AST-instrumented overlay)",
             text="On the global event order of every explored schedule: nothing follows the first close frame on the wire; every message-level write that begins after the closing call returned fails (ErrCloseSent when valid); messages reported as sent are exactly the complete data messages on the wire.",
             note="preemption bound 2 (quick) / 3-4 (thorough); memory-model reorderings not modelled; calls overlapping the closing call may be linearised before it", ref="§4 C09"),
 "C11": dict(tech="stateless model checking under a controlled scheduler with virtual time; every explored schedule is also run in a -race build whose thread hand-offs are invisible to ThreadSanitizer (futex baton in norace code), making the race detector a per-schedule oracle",
             text="All preemption-bounded interleavings of reader (default handlers write), writer, 0-2 WriteControl callers (with/without deadline), Close and the clock passing the deadline: no race report, wire decodes as whole frames with control frames only between them, reported-sent == on the wire, a deadline-carrying WriteControl never waits past its deadline without a pending timer, timeouts do not poison the connection, no deadlock.",
             note="races = those ThreadSanitizer can see on explored schedules; race flavour explores one preemption less than the plain flavour", ref="§4 C11"),
 "C07": dict(tech="model checking (small-scope exhaustive enumeration): every byte string up to a length as a frame stream x tails x role x compression, structured hostile frame sequences, every prefix / grammar variant of Dial and CONNECT replies, every short string over a separator alphabet as request header values - all on the real code",
             text="Oracle: no panic (recovered and attributed), every call returns, the read loop needs at most bytes+3 calls, allocation (TotalAlloc, single goroutine) <= 1 MiB + 1100 x bytes fed, delivered bytes proportional to received bytes.",
             note="inputs longer than the stated bounds that share no structure with the enumerated ones are outside the claim", ref="§4 C07"),
 "C18": dict(tech="model checking: complete enumeration of the dial configuration matrix on the real Dialer against in-process HTTP/HTTPS CONNECT proxies, a SOCKS5 server and TLS back-ends over deterministic synchronous pipes; every peer logs what it saw",
             text="Proxy sees exactly one CONNECT host:port (defaults 80/443) with Basic auth iff a password is present; SOCKS5 equivalent; non-200 aborts with an error and nothing is sent on; wss requests arrive only inside a TLS session verified for the URL host on every path; wrong-host / untrusted certificates fail; first hop uses the applicable hook; backend never dialed directly when a proxy is configured.",
             note="hook-less cells (default net.Dialer) run on real loopback TCP listeners; crypto/tls and x/net/proxy trusted", ref="§4 C18"),
 "C15": dict(tech="model checking: complete enumeration of EnableCompression pairs x client offers x server replies on the real Dialer/Upgrader (in-process handshake) followed by message flow under every sequence of <=3 write-compression setting calls; compression state observed behaviourally",
             text="Both ends' 'accepts compressed' (verdict on a conformant RSV1 message from the independent encoder) and 'compresses' (RSV1 on a message written with compression enabled) must equal 'the 101 announced permessage-deflate with both no_context_takeover parameters'; all messages round-trip under every toggle sequence.",
             note="a connection is never required to compress", ref="§4 C15"),
 "C16": dict(tech="model checking / fault enumeration: every transport operation of every dial path (direct, HTTP/HTTPS CONNECT, SOCKS5, with/without TLS; in-process peers over a deterministic synchronous pipe) and of Upgrade is a choice point with answers ok/error/timeout/EOF; negative replies; timeout settings",
             text="Failure => nil Conn, error, every dialed/hijacked connection closed; success => open, no deadline armed; with a limit every raw Read/Write runs under a deadline no later than it (TLS first-hop handshake exempt, bounded by the context).",
             note="deadline-call faults may be survived by third-party proxy code; Read/Write faults must fail the handshake", ref="§4 C16"),
 "C17": dict(tech="model checking: complete enumeration of (stream, split between hijacked buffer and socket, ReadBufferSize, hijacked reader size, socket chunking) on the real Upgrader and of every split of response+frames on the real Dialer",
             text="For every cell the messages read from the returned Conn must equal the stream's messages per the independent decoder; the hijacked bufio.Reader is layered over the same connection object Hijack returns, as net/http does.",
             note="how bytes are moved (reuse/wrap/copy) is not constrained", ref="§4 C17"),
 "C12": dict(tech="model checking: exhaustive deviation-bounded enumeration of upgrade requests from the handshake grammar x Upgrader settings x responseHeader maps on the real Upgrader; independent RFC 6455/7230 reference predicate and line-level response parser",
             text="All single and pairwise (quick) / triple (thorough) deviations from the canonical valid request are enumerated completely, plus every byte value 0..255 at three positions of application header values. Success iff valid (on decided inputs); 101 response parsed independently (accept digest, subprotocol membership, extension announcement, no injected line); failures: HandshakeError, no hijack, 403/426.",
             note="don't-care classes in DESIGN.md §6; canonical-key request representation of net/http is the input domain", ref="§4 C12"),
 "C13": dict(tech="model checking: complete enumeration of (Host, Origin) pairs from scheme x userinfo x host edits x port x suffix on the real Upgrader without CheckOrigin; oracle RFC 3986 authority + A-Z folding",
             text="1.4 million (quick) origin spellings incl. one-character edits at every position, look-alike runes, percent-escapes, userinfo tricks; accepted implies authority equals Host under ASCII folding, plain same-origin is accepted, everything else gets 403 without hijack.",
             note="several Origin lines are a don't-care", ref="§4 C13"),
 "C14": dict(tech="model checking: exhaustive deviation-bounded enumeration of (URL, Dialer settings, caller headers, scripted reply) on the real Dialer over a scripted transport; challenge key traced to a recording random source",
             text="Connection returned iff the scripted reply is 101 with Upgrade/Connection tokens and the digest of the key sent in this very dial (stale accept from a previous dial included); ErrBadHandshake carries status, headers and <=1024 body bytes; request head parsed line by line (request-URI, Host once, owned headers carry the library's values only); bad URLs cause zero network activity.",
             note="crypto/rand.Reader replaced by a recording source during an execution; net/http response parser trusted", ref="§4 C14"),
 "C05": dict(tech="model checking / fault enumeration: complete product of stream shapes x every cut offset x every legal way an io.Reader reports the end x chunking x read program on the real reader",
             text="For every cut offset of every stream shape and every fault kind ((0,EOF),(n,EOF),(0,err),(n,err),timeouts) the reference computes which messages had completely arrived; reported-complete messages must be a byte-identical prefix between 'must' and 'may', partial messages end in a non-EOF error, NextReader errors are sticky.",
             note="message completing in the failing transport read itself: either outcome accepted; 5/990 repeated calls", ref="§4 C05"),
 "C06": dict(tech="model checking: explicit-state enumeration over read histories x limits x fragmentations x 64-bit claims on the real reader with a transport that withholds the crossing frame's payload",
             text="Complete product of limits, histories (two slots: unfragmented/fragmented x read fully/1 byte/abandoned), sizes L-1/L/L+1 with every cut composition, 64-bit claims alone/after partial sums, interleaved ping, read programs. Within-limit messages must be readable, over-limit ones refused with ErrReadLimit before their payload exists, 1009 on the wire; allocation independent of claimed length.",
             note="1009 not required for top-bit/overflowing sums; TotalAlloc is deterministic in a single goroutine", ref="§4 C06"),
 "C10": dict(tech="model checking / fault enumeration: every transport operation index of every explored write program is a choice point with answers ok/error/timeout/short/zero write; invalid requests x positions; deadline compared at every transport Write",
             text="After any single fault: wire prefix decodes to whole frames + <=1 partial, no later transport Write, every later message-level write fails; invalid requests write nothing and leave the stream intact (judged by the independent decoder); each Write runs under the expected deadline.",
             note="single fault per execution; lean content dimensions", ref="§4 C10"),
 "C20": dict(tech="model checking: program x fault x invalid-request space with an instrumented poisoning BufferPool (Get/Put log stamped with the API call and transport op in progress), plus preemption-bounded scheduler exploration (plain and -race) of 2-3 connections sharing one pool",
             text="Get/Put log must be (Get Put)* with the same buffer, Gets only in message-starting calls, no buffer held between messages (after Close, implicit close, error, invalid request), every frame write issued while the buffer is owned; poisoned returned buffers make use-after-release visible on the wire.",
             note="sharing: 2-3 connections with one pool under the scheduler in plain and -race builds (preemption-bounded)", ref="§4 C20"),
 "C01": dict(tech="model checking: deviation-bounded exhaustive exploration of write programs x read programs on a real Conn pair, oracle = list of messages given to the write API",
             text="Core product role x deflate x WriteBufferSize x size in S(B) x write program enumerated completely; every other dimension (type, pattern, level, toggles, pool, interleaved control writes, further messages, read buffer/program/size, chunking, abandon) explored exhaustively up to the deviation bound. All executions are of the real code.",
             note="sizes restricted to the boundary set S(B); sequences <= 2 (quick) / 3 (thorough); scripted in-memory transport", ref="§4 C01"),
 "C02": dict(tech="model checking: same exhaustive write-program exploration, every byte handed to the transport judged by an independent strict RFC 6455/7692 decoder; mask keys traced to a recording random source",
             text="Every explored write program's wire bytes are decoded by ref/wsref in strict mode in the peer's role and compared with the API-level messages; client mask keys must be fresh windows of the random source drawn during the call; source must be crypto/rand.Reader.",
             note="crypto/rand quality assumed; compress/flate inflater trusted", ref="§4 C02"),
 "C03": dict(tech="model checking: deviation-bounded exhaustive exploration of conformant streams from an independent encoder (all fragment compositions, hand-made DEFLATE shapes, flate levels) through every read program; complete lane-wise maskBytes table",
             text="Streams are produced by ref/wsref + ref/rawdeflate, never by the library; all cut compositions are enumerated for the core, other dimensions deviation-bounded; maskBytes is enumerated completely per lane.",
             note="2^32 keys covered by lane-wise argument; inflater trusted", ref="§4 C03"),
 "C08": dict(tech="model checking: exhaustive exploration of control-frame placements in conformant streams on the real reader; complete enumeration of acceptable close codes; replies judged by independent decoder",
             text="Control frames of 0/1/124/125 bytes at every slot; handler log must equal wire order exactly once, with byte-granular ordering against delivered data; default ping/close replies decoded by ref/wsref; every handler kind failing at every control frame.",
             note="compressed messages judged at message granularity", ref="§4 C08"),
 "C04": dict(tech="explicit-state model checking: exhaustive enumeration of (protocol state x next-frame header alphabet) on the real reader against an independent RFC 6455 classifier",
             text="Every protocol state reached by a valid prefix x every next frame over the full header alphabet is executed on the real Conn; verdicts come from an independent classifier. Complete product, no sampling.",
             note="ref/wsref classifier written from RFC 6455; don't-care classes listed in DESIGN.md §6; compress/flate inflater trusted", ref="§4 C04"),
}
ALL = ["C%02d"%i for i in range(1,21)]
PENDING_REASON = "check not built yet in this round (planned, see DESIGN.md §4); not claimed until its harness exists and passes on the unchanged tree"
m = {
 "version": 1,
 "setup_cmd": "./run setup",
 "hooks": {
   "guard": "verif",
   "enable": "go build -tags verif -overlay <generated json> (./run generates it: adds engine/overlay/zz_verif_export.go and zz_verif_export_pools.go to package websocket - for the sched/race flavours an instrumented copy of the package made by engine/instrument; no file in /repo is edited)",
   "baseline_off_cmd": "cd /repo && go test -vet=off -count=1 ./...",
   "source_commits": [],
   "add_only": True,
 },
 "engines": [
   {"name": "vrt", "path": "engine/vrt", "serves_properties": ["C09","C11","C19","C20"], "kind_free_text": "controlled scheduler (one goroutine runs at a time; points at channel/mutex/once/pool/transport/timer operations; virtual clock; futex baton under -race) driven by the explorer; sources instrumented by engine/instrument through a go build overlay"},
   {"name": "explore", "path": "engine/explore", "serves_properties": sorted(CLAIMED), "kind_free_text": "deviation-bounded stateless DFS over harness choices executed on the real implementation; process-sharded; replay files"},
 ],
 "checks": [],
 "not_applicable": [],
 "notes": "All verdicts come from exhaustive enumeration of a stated bounded space of executions of the real code (model checking family). See DESIGN.md.",
}
for pid in ALL:
    if pid in CLAIMED:
        c = CLAIMED[pid]
        m["checks"].append({
          "property_id": pid,
          "quick_cmd": "./run %s quick" % pid,
          "thorough_cmd": "./run %s thorough" % pid,
          "evidence_file": "evidence/%s.json" % pid,
          "replay_cmd_template": "./run replay {path}",
          "engine": "explore",
          "level_claimed": {"category": "model_checking", "text": c["text"], "design_ref": c["ref"]},
          "level_note": c["note"],
          "technique": c["tech"],
        })
    else:
        m["not_applicable"].append({"property_id": pid, "reason": PENDING_REASON})
json.dump(m, open("MANIFEST.json","w"), indent=1)
print("claimed:", sorted(CLAIMED))
