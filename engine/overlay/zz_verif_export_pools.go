//go:build verif

// Second injected file: empties the package-level pools so that every execution starts from
// the same global state (pooled flate readers/writers otherwise carry state from one
// execution to the next, and the garbage collector empties sync.Pools at unpredictable
// moments).  It keeps whatever New functions the tree defines.  It names unexported
// variables; if a changed tree no longer has them (or gives them another type) the driver
// rebuilds without this file.

package websocket

import "sync"

func init() {
	readerNew := flateReaderPool.New
	var writerNew [len(flateWriterPools)]func() interface{}
	for i := range flateWriterPools {
		writerNew[i] = flateWriterPools[i].New
	}
	verifResetPools = func() {
		for i := range flateWriterPools {
			flateWriterPools[i] = sync.Pool{New: writerNew[i]}
		}
		flateReaderPool = sync.Pool{New: readerNew}
	}
}
