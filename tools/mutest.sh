#!/bin/bash
# usage: tools/mutest.sh <patch.diff> <check-id>... : applies the patch to a scratch copy of /repo HEAD,
# runs the repository's own tests (must pass), then the quick checks with VERIF_REPO (must report a VIOLATION).
export GOFLAGS=-mod=mod GOPROXY=off GOSUMDB=off GOTOOLCHAIN=local
patch="$(readlink -f "$1")"; shift
S=$(mktemp -d /tmp/mutest.XXXXXX); trap 'rm -rf "$S"' EXIT
git -C /repo archive HEAD | tar -x -C "$S"
( cd "$S" && git init -q && git apply "$patch" ) || { echo "PATCH-FAILED $patch"; exit 3; }
if [ -z "${SKIP_REPO_TESTS:-}" ]; then
  ok=0
  for try in 1 2 3; do  # the repository's TLS/proxy tests are flaky under CPU load: a mutant is refused only if the same test fails 3 times
    if ( cd "$S" && go test -vet=off -count=1 . > "$S/test.log" 2>&1 ); then ok=1; break; fi
    grep -- '--- FAIL' "$S/test.log" | sort > "$S/fail.$try"
  done
  if [ $ok = 0 ] && [ -n "$(comm -12 "$S/fail.1" "$S/fail.2" | comm -12 - "$S/fail.3")" ]; then
    echo "REPO-TESTS-FAIL $(basename $patch): $(comm -12 "$S/fail.1" "$S/fail.2" | comm -12 - "$S/fail.3" | head -3 | tr '\n' ' ')"; exit 4
  fi
fi
rc=0
for id in "$@"; do
  out=$(VERIF_REPO="$S" VERIF_SCRATCH_OUT="$S/out" /verif/run "$id" ${TIER:-quick} 2>&1)
  if echo "$out" | grep -q '^VIOLATION'; then
    echo "CAUGHT $(basename $patch) by $id: $(echo "$out" | grep -m1 'key:')"
  else
    echo "MISSED $(basename $patch) by $id: $(echo "$out" | tail -1)"; rc=1
  fi
done
exit $rc
