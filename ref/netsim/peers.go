package netsim

import (
	"bytes"
	"crypto/ed25519"
	"crypto/rand"
	"crypto/sha1"
	"crypto/tls"
	"crypto/x509"
	"crypto/x509/pkix"
	"encoding/base64"
	"fmt"
	"io"
	"math/big"
	"net"
	"strings"
	"sync"
	"time"
)

// ---------------------------------------------------------------------------------------
// Test PKI (Ed25519: signature and key sizes are fixed, so TLS record sizes are stable)

type PKI struct {
	Roots      *x509.CertPool // trusts CA only
	CA         *x509.Certificate
	caKey      ed25519.PrivateKey
	otherCA    *x509.Certificate
	otherCAKey ed25519.PrivateKey
	mu         sync.Mutex
	leaves     map[string]tls.Certificate
}

var pkiOnce sync.Once
var pki *PKI

// TestPKI returns the process-wide test PKI.
func TestPKI() *PKI {
	pkiOnce.Do(func() {
		p := &PKI{leaves: map[string]tls.Certificate{}}
		p.CA, p.caKey = makeCA("verif test CA")
		p.otherCA, p.otherCAKey = makeCA("untrusted CA")
		p.Roots = x509.NewCertPool()
		p.Roots.AddCert(p.CA)
		pki = p
	})
	return pki
}

func makeCA(cn string) (*x509.Certificate, ed25519.PrivateKey) {
	pub, priv, err := ed25519.GenerateKey(rand.Reader)
	if err != nil {
		panic(err)
	}
	tmpl := &x509.Certificate{SerialNumber: big.NewInt(1), Subject: pkix.Name{CommonName: cn}, NotBefore: time.Now().Add(-time.Hour), NotAfter: time.Now().Add(240 * time.Hour),
		IsCA: true, KeyUsage: x509.KeyUsageCertSign | x509.KeyUsageDigitalSignature, BasicConstraintsValid: true}
	der, err := x509.CreateCertificate(rand.Reader, tmpl, tmpl, pub, priv)
	if err != nil {
		panic(err)
	}
	c, _ := x509.ParseCertificate(der)
	return c, priv
}

// Leaf returns a server certificate for host (DNS name or IP literal), signed by the
// trusted CA or, if untrusted, by a CA the client does not know.
func (p *PKI) Leaf(host string, untrusted bool) tls.Certificate {
	p.mu.Lock()
	defer p.mu.Unlock()
	k := fmt.Sprintf("%s/%v", host, untrusted)
	if c, ok := p.leaves[k]; ok {
		return c
	}
	pub, priv, _ := ed25519.GenerateKey(rand.Reader)
	tmpl := &x509.Certificate{SerialNumber: big.NewInt(int64(len(p.leaves) + 2)), Subject: pkix.Name{CommonName: host}, NotBefore: time.Now().Add(-time.Hour), NotAfter: time.Now().Add(240 * time.Hour),
		KeyUsage: x509.KeyUsageDigitalSignature, ExtKeyUsage: []x509.ExtKeyUsage{x509.ExtKeyUsageServerAuth}}
	h := strings.Trim(host, "[]")
	if ip := net.ParseIP(h); ip != nil {
		tmpl.IPAddresses = []net.IP{ip}
	} else {
		tmpl.DNSNames = []string{h}
	}
	ca, caKey := p.CA, p.caKey
	if untrusted {
		ca, caKey = p.otherCA, p.otherCAKey
	}
	der, err := x509.CreateCertificate(rand.Reader, tmpl, ca, pub, caKey)
	if err != nil {
		panic(err)
	}
	c := tls.Certificate{Certificate: [][]byte{der}, PrivateKey: priv}
	p.leaves[k] = c
	return c
}

// ---------------------------------------------------------------------------------------
// Peers (run in their own goroutine on the server end of a Pipe)

// PeerLog records what a peer observed.  Guarded by its mutex.
type PeerLog struct {
	mu     sync.Mutex
	Events []string
}

func (l *PeerLog) Add(format string, a ...any) {
	l.mu.Lock()
	l.Events = append(l.Events, fmt.Sprintf(format, a...))
	l.mu.Unlock()
}

func (l *PeerLog) Snapshot() []string {
	l.mu.Lock()
	defer l.mu.Unlock()
	return append([]string{}, l.Events...)
}

// Has reports whether an event with the prefix was logged.
func (l *PeerLog) Has(prefix string) bool {
	for _, e := range l.Snapshot() {
		if strings.HasPrefix(e, prefix) {
			return true
		}
	}
	return false
}

// Count returns the number of events with the prefix.
func (l *PeerLog) Count(prefix string) int {
	n := 0
	for _, e := range l.Snapshot() {
		if strings.HasPrefix(e, prefix) {
			n++
		}
	}
	return n
}

const wsGUID = "258EAFA5-E914-47DA-95CA-C5AB0DC85B11"

func acceptKey(k string) string {
	h := sha1.Sum([]byte(k + wsGUID))
	return base64.StdEncoding.EncodeToString(h[:])
}

// readHead reads an HTTP message head byte-wise (so that nothing after the blank line is consumed).
func readHead(c net.Conn) ([]byte, error) {
	var buf []byte
	var b [1]byte
	for {
		n, err := c.Read(b[:])
		if n == 1 {
			buf = append(buf, b[0])
			if bytes.HasSuffix(buf, []byte("\r\n\r\n")) {
				return buf, nil
			}
		}
		if err != nil {
			return buf, err
		}
		if len(buf) > 1<<16 {
			return buf, fmt.Errorf("head too long")
		}
	}
}

// Backend describes the WebSocket server at the end of a dial path.
type Backend struct {
	Name    string
	TLS     *tls.Config // nil: plain
	Reply   string      // "" = correct 101; "200" = refuse with 200 OK; "badaccept"
	Log     *PeerLog
	Trailer []byte // bytes sent right after the 101 response
}

// Serve handles one connection.
func (b *Backend) Serve(c net.Conn) {
	defer c.Close()
	first := make([]byte, 0, 8)
	conn := c
	if b.TLS != nil {
		// peek at the first byte to tell a ClientHello from plain text
		pc := &peekConn{Conn: c}
		fb, err := pc.peek(1)
		if err != nil {
			b.Log.Add("%s: eof-before-data", b.Name)
			return
		}
		first = append(first, fb...)
		if fb[0] != 0x16 {
			b.Log.Add("%s: PLAINTEXT-ON-TLS-PORT first byte %#x", b.Name, fb[0])
			return
		}
		b.Log.Add("%s: clienthello", b.Name)
		tc := tls.Server(pc, b.TLS)
		if err := tc.Handshake(); err != nil {
			b.Log.Add("%s: tls-handshake-failed %v", b.Name, err)
			return
		}
		b.Log.Add("%s: tls-established sni=%s", b.Name, tc.ConnectionState().ServerName)
		conn = tc
	}
	head, err := readHead(conn)
	if err != nil {
		b.Log.Add("%s: request-incomplete %q", b.Name, head)
		return
	}
	if b.TLS == nil && len(head) > 0 && head[0] == 0x16 {
		b.Log.Add("%s: TLS-ON-PLAIN-PORT", b.Name)
		return
	}
	b.Log.Add("%s: ws-request %s", b.Name, strings.SplitN(string(head), "\r\n", 2)[0])
	key := ""
	for _, l := range strings.Split(string(head), "\r\n") {
		if k, v, ok := strings.Cut(l, ":"); ok && strings.EqualFold(k, "Sec-WebSocket-Key") {
			key = strings.TrimSpace(v)
		}
	}
	switch b.Reply {
	case "200":
		io.WriteString(conn, "HTTP/1.1 200 OK\r\nContent-Length: 2\r\n\r\nno")
	case "badaccept":
		io.WriteString(conn, "HTTP/1.1 101 Switching Protocols\r\nUpgrade: websocket\r\nConnection: Upgrade\r\nSec-WebSocket-Accept: AAAAAAAAAAAAAAAAAAAAAAAAAAA=\r\n\r\n")
	case "badcompression":
		io.WriteString(conn, "HTTP/1.1 101 Switching Protocols\r\nUpgrade: websocket\r\nConnection: Upgrade\r\nSec-WebSocket-Accept: "+acceptKey(key)+"\r\nSec-WebSocket-Extensions: permessage-deflate\r\n\r\n")
	default:
		conn.Write(append([]byte("HTTP/1.1 101 Switching Protocols\r\nUpgrade: websocket\r\nConnection: Upgrade\r\nSec-WebSocket-Accept: "+acceptKey(key)+"\r\n\r\n"), b.Trailer...))
	}
	// stay until the client goes away
	io.Copy(io.Discard, conn)
}

type peekConn struct {
	net.Conn
	buf []byte
}

func (p *peekConn) peek(n int) ([]byte, error) {
	for len(p.buf) < n {
		b := make([]byte, 4096)
		k, err := p.Conn.Read(b)
		p.buf = append(p.buf, b[:k]...)
		if err != nil {
			return p.buf, err
		}
	}
	return p.buf[:n], nil
}

func (p *peekConn) Read(b []byte) (int, error) {
	if len(p.buf) > 0 {
		n := copy(b, p.buf)
		p.buf = p.buf[n:]
		return n, nil
	}
	return p.Conn.Read(b)
}

// HTTPProxy is an in-process CONNECT proxy.
type HTTPProxy struct {
	Name   string
	TLS    *tls.Config // https proxy
	Reply  string      // status line after "HTTP/1.1 ", default "200 Connection established"; "garbage"; "eof"
	Log    *PeerLog
	Target func(hostport string) func(net.Conn) // backend for a CONNECT target
}

func (p *HTTPProxy) Serve(c net.Conn) {
	defer c.Close()
	conn := c
	if p.TLS != nil {
		tc := tls.Server(c, p.TLS)
		if err := tc.Handshake(); err != nil {
			p.Log.Add("%s: tls-handshake-failed %v", p.Name, err)
			return
		}
		p.Log.Add("%s: tls-established sni=%s", p.Name, tc.ConnectionState().ServerName)
		conn = tc
	}
	head, err := readHead(conn)
	if err != nil {
		p.Log.Add("%s: request-incomplete", p.Name)
		return
	}
	lines := strings.Split(string(head), "\r\n")
	p.Log.Add("%s: request %s", p.Name, lines[0])
	for _, l := range lines[1:] {
		if k, v, ok := strings.Cut(l, ":"); ok && strings.EqualFold(k, "Proxy-Authorization") {
			p.Log.Add("%s: proxy-authorization %s", p.Name, strings.TrimSpace(v))
		}
		if k, v, ok := strings.Cut(l, ":"); ok && strings.EqualFold(k, "Host") {
			p.Log.Add("%s: host-header %s", p.Name, strings.TrimSpace(v))
		}
	}
	f := strings.Fields(lines[0])
	if len(f) != 3 || f[0] != "CONNECT" {
		p.Log.Add("%s: NOT-CONNECT", p.Name)
		io.WriteString(conn, "HTTP/1.1 400 Bad Request\r\n\r\n")
		return
	}
	switch {
	case p.Reply == "garbage":
		io.WriteString(conn, "\x00\x01garbage\r\n\r\n")
		return
	case p.Reply == "eof":
		return
	case p.Reply == "100 Continue":
		io.WriteString(conn, "HTTP/1.1 100 Continue\r\n\r\nHTTP/1.1 200 Connection established\r\n\r\n")
	case p.Reply == "" || strings.HasPrefix(p.Reply, "200"):
		st := p.Reply
		if st == "" {
			st = "200 Connection established"
		}
		io.WriteString(conn, "HTTP/1.1 "+st+"\r\n\r\n")
	default:
		io.WriteString(conn, "HTTP/1.1 "+p.Reply+"\r\nContent-Length: 0\r\n\r\n")
		// a refusing proxy keeps the connection open; anything sent now would be a violation
		n, _ := io.Copy(io.Discard, conn)
		if n > 0 {
			p.Log.Add("%s: BYTES-AFTER-REFUSAL %d", p.Name, n)
		}
		return
	}
	h := p.Target(f[1])
	if h == nil {
		p.Log.Add("%s: unknown-target %s", p.Name, f[1])
		return
	}
	h(conn)
}

// Socks5 is an in-process SOCKS5 server (RFC 1928 / 1929), CONNECT only.
type Socks5 struct {
	Name   string
	Log    *PeerLog
	Target func(hostport string) func(net.Conn)
	Refuse bool
}

func (s *Socks5) Serve(c net.Conn) {
	defer c.Close()
	rd := func(n int) ([]byte, error) { // never reads ahead beyond what is asked
		b := make([]byte, n)
		_, err := io.ReadFull(c, b)
		return b, err
	}
	h, err := rd(2)
	if err != nil || h[0] != 5 {
		s.Log.Add("%s: bad-greeting", s.Name)
		return
	}
	methods, err := rd(int(h[1]))
	if err != nil {
		return
	}
	useAuth := bytes.IndexByte(methods, 2) >= 0
	if useAuth {
		c.Write([]byte{5, 2})
		a, err := rd(2)
		if err != nil {
			return
		}
		u, _ := rd(int(a[1]))
		pl, _ := rd(1)
		pw, _ := rd(int(pl[0]))
		s.Log.Add("%s: auth %s:%s", s.Name, u, pw)
		c.Write([]byte{1, 0})
	} else {
		s.Log.Add("%s: noauth", s.Name)
		c.Write([]byte{5, 0})
	}
	req, err := rd(4)
	if err != nil {
		return
	}
	var host string
	switch req[3] {
	case 1:
		b, _ := rd(4)
		host = net.IP(b).String()
	case 4:
		b, _ := rd(16)
		host = "[" + net.IP(b).String() + "]"
	case 3:
		l, _ := rd(1)
		b, _ := rd(int(l[0]))
		host = string(b)
	}
	pb, err := rd(2)
	if err != nil {
		return
	}
	target := fmt.Sprintf("%s:%d", host, int(pb[0])<<8|int(pb[1]))
	s.Log.Add("%s: connect cmd=%d %s", s.Name, req[1], target)
	if s.Refuse {
		c.Write([]byte{5, 2, 0, 1, 0, 0, 0, 0, 0, 0})
		n, _ := io.Copy(io.Discard, c)
		if n > 0 {
			s.Log.Add("%s: BYTES-AFTER-REFUSAL %d", s.Name, n)
		}
		return
	}
	c.Write([]byte{5, 0, 0, 1, 0, 0, 0, 0, 0, 0})
	hd := s.Target(target)
	if hd == nil {
		s.Log.Add("%s: unknown-target %s", s.Name, target)
		return
	}
	hd(c)
}
