//go:build verif

// Second injected file: empties the package-level pools so that every execution starts from
// the same global state (pooled flate readers/writers otherwise carry state from one
// execution to the next, and the garbage collector empties sync.Pools at unpredictable
// moments).  The pools are drained, not replaced: a sync.Pool registers itself with the
// runtime on first use, so creating fresh pools for every execution would grow that registry
// by millions of entries.  The file names unexported variables; if a changed tree no longer
// has them (or gives them another type) the driver rebuilds without this file.

package websocket

func init() {
	verifResetPools = func() {
		for i := range flateWriterPools {
			p := &flateWriterPools[i]
			n := p.New
			p.New = nil
			for p.Get() != nil {
			}
			p.New = n
		}
		n := flateReaderPool.New
		flateReaderPool.New = nil
		for flateReaderPool.Get() != nil {
		}
		flateReaderPool.New = n
	}
	census := func(get func() interface{}, put func(interface{})) int {
		var got []interface{}
		dup := 0
		for {
			v := get()
			if v == nil {
				break
			}
			for _, o := range got {
				if o == v {
					dup++
					break
				}
			}
			got = append(got, v)
		}
		for _, v := range got {
			put(v)
		}
		return dup
	}
	verifPoolCensus = func() (writers, readers int) {
		for i := range flateWriterPools {
			p := &flateWriterPools[i]
			n := p.New
			p.New = nil
			writers += census(p.Get, p.Put)
			p.New = n
		}
		n := flateReaderPool.New
		flateReaderPool.New = nil
		readers = census(flateReaderPool.Get, flateReaderPool.Put)
		flateReaderPool.New = n
		return
	}
}
