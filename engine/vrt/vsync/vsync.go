// Package vsync stands in for package sync inside the instrumented copy of the package under
// test.  Every blocking operation is preceded by a scheduling point and then performed on a
// real primitive (which can no longer block), so that ThreadSanitizer records exactly the
// happens-before edges the program itself establishes.
package vsync

import (
	"sync"

	"verif.local/engine/vrt"
)

type (
	WaitGroup = sync.WaitGroup
	Locker    = sync.Locker
	Map       = sync.Map
)

// Mutex is sync.Mutex with a scheduling point before Lock.
type Mutex struct {
	mu     sync.Mutex
	locked bool
}

// Ready implements vrt.Waitable.
//
//go:norace
func (m *Mutex) Ready() bool { return !m.locked }

func (m *Mutex) Lock() {
	if s := vrt.Active; s != nil && s.CurID() >= 0 {
		s.Point("mutex.Lock", m)
		if s.Poisoned() {
			return
		}
		m.mu.Lock()
		m.setLocked(true)
		return
	}
	m.mu.Lock()
	m.setLocked(true)
}

//go:norace
func (m *Mutex) setLocked(v bool) { m.locked = v }

func (m *Mutex) Unlock() {
	if s := vrt.Active; s != nil && s.Poisoned() {
		return
	}
	m.setLocked(false)
	m.mu.Unlock()
}

func (m *Mutex) TryLock() bool {
	if m.mu.TryLock() {
		m.setLocked(true)
		return true
	}
	return false
}

// RWMutex is treated as a plain mutex (coarser than the original: no false positives for
// deadlock-freedom of correct code that never re-enters, which the package does not).
type RWMutex struct{ Mutex }

func (m *RWMutex) RLock()   { m.Lock() }
func (m *RWMutex) RUnlock() { m.Unlock() }

// Once is sync.Once: a second caller is disabled until the first has finished.
type Once struct {
	mu      sync.Mutex
	done    bool
	running bool
}

// Ready implements vrt.Waitable.
//
//go:norace
func (o *Once) Ready() bool { return !o.running }

//go:norace
func (o *Once) get() (done bool) { return o.done }

//go:norace
func (o *Once) set(running, done bool) { o.running, o.done = running, done }

func (o *Once) Do(f func()) {
	s := vrt.Active
	if s != nil && s.CurID() >= 0 {
		s.Point("once.Do", o)
		if s.Poisoned() {
			return
		}
	}
	o.mu.Lock() // real edge: whoever runs f publishes its effects to later callers
	if o.get() {
		o.mu.Unlock()
		return
	}
	o.set(true, false)
	defer func() {
		o.set(false, true)
		o.mu.Unlock()
	}()
	f()
}

// Pool is a deterministic sync.Pool: LIFO, never drops, Get/Put are scheduling points.
type Pool struct {
	New   func() any
	mu    sync.Mutex
	items []any
}

func (p *Pool) Get() any {
	if s := vrt.Active; s != nil && s.CurID() >= 0 {
		s.Point("pool.Get", nil)
	}
	p.mu.Lock()
	var v any
	if n := len(p.items); n > 0 {
		v = p.items[n-1]
		p.items = p.items[:n-1]
	}
	p.mu.Unlock()
	if v == nil && p.New != nil {
		v = p.New()
	}
	return v
}

func (p *Pool) Put(v any) {
	if v == nil {
		return
	}
	if s := vrt.Active; s != nil && s.CurID() >= 0 {
		s.Point("pool.Put", nil)
	}
	p.mu.Lock()
	p.items = append(p.items, v)
	p.mu.Unlock()
}
