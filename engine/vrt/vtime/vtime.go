// Package vtime stands in for package time inside the instrumented copy of the package
// under test: the identifiers that read or wait for the clock resolve to the scheduler's
// virtual clock, everything else is re-exported unchanged (types are aliases, so method sets
// and interface satisfaction - e.g. net.Conn's SetDeadline(time.Time) - are unaffected).
package vtime

import (
	"time"

	"verif.local/engine/vrt"
)

type (
	Time     = time.Time
	Duration = time.Duration
	Month    = time.Month
	Weekday  = time.Weekday
	Location = time.Location
	Timer    = vrt.Timer
)

const (
	Nanosecond  = time.Nanosecond
	Microsecond = time.Microsecond
	Millisecond = time.Millisecond
	Second      = time.Second
	Minute      = time.Minute
	Hour        = time.Hour
	RFC3339     = time.RFC3339
	RFC1123     = time.RFC1123
)

var UTC = time.UTC

func Now() Time                             { return vrt.Now() }
func Until(t Time) Duration                 { return vrt.Until(t) }
func Since(t Time) Duration                 { return vrt.Now().Sub(t) }
func NewTimer(d Duration) *Timer            { return vrt.NewTimer(d) }
func After(d Duration) <-chan Time          { return vrt.NewTimer(d).C }
func AfterFunc(d Duration, f func()) *Timer { return vrt.AfterFunc(d, f) }
func Unix(sec, nsec int64) Time             { return time.Unix(sec, nsec) }
func Date(year int, month Month, day, hour, min, sec, nsec int, loc *Location) Time {
	return time.Date(year, month, day, hour, min, sec, nsec, loc)
}
func ParseDuration(s string) (Duration, error) { return time.ParseDuration(s) }

// Sleep under the scheduler advances nothing and is a scheduling point (a sleeping thread is
// simply one that may be overtaken); outside it sleeps for real.
func Sleep(d Duration) {
	if s := vrt.Active; s != nil {
		s.Point("sleep", nil)
		return
	}
	time.Sleep(d)
}
