package netsim

import (
	"io"
	"net"
	"sync"
	"time"
)

// Pipe is a synchronous in-memory duplex connection.  Every Write is delivered as one chunk;
// a Read returns bytes of at most one chunk and blocks until a chunk is available, so the
// sequence of (Read result) seen by one side is a deterministic function of the peer's
// Write sequence, whatever the goroutine timing.
type pipeHalf struct {
	mu     sync.Mutex
	cond   *sync.Cond
	chunks [][]byte
	wclose bool // writer closed: reader sees EOF after draining
	rclose bool // reader closed: writer sees an error
}

type PipeEnd struct {
	in, out *pipeHalf
	name    string
	closed  bool
	mu      sync.Mutex
}

// StallTimeout bounds how long a Read may block (hang guard only, never an oracle).
var StallTimeout = 8 * time.Second

// ErrStall is returned when a Read blocked for StallTimeout.
type stallErr struct{}

func (stallErr) Error() string   { return "netsim: pipe read stalled (hang guard)" }
func (stallErr) Timeout() bool   { return true }
func (stallErr) Temporary() bool { return true }

var ErrStall net.Error = stallErr{}

// NewPipe returns the two ends.
func NewPipe(name string) (a, b *PipeEnd) {
	h1, h2 := &pipeHalf{}, &pipeHalf{}
	h1.cond, h2.cond = sync.NewCond(&h1.mu), sync.NewCond(&h2.mu)
	return &PipeEnd{in: h1, out: h2, name: name + "/a"}, &PipeEnd{in: h2, out: h1, name: name + "/b"}
}

func (p *PipeEnd) Read(b []byte) (int, error) {
	h := p.in
	h.mu.Lock()
	defer h.mu.Unlock()
	deadline := time.Now().Add(StallTimeout)
	for len(h.chunks) == 0 {
		if h.rclose {
			return 0, net.ErrClosed
		}
		if h.wclose {
			return 0, io.EOF
		}
		if time.Now().After(deadline) {
			return 0, ErrStall
		}
		// wake up periodically to evaluate the hang guard
		t := time.AfterFunc(200*time.Millisecond, h.cond.Broadcast)
		h.cond.Wait()
		t.Stop()
	}
	if len(b) == 0 {
		return 0, nil
	}
	c := h.chunks[0]
	n := copy(b, c)
	if n == len(c) {
		h.chunks = h.chunks[1:]
	} else {
		h.chunks[0] = c[n:]
	}
	return n, nil
}

func (p *PipeEnd) Write(b []byte) (int, error) {
	h := p.out
	h.mu.Lock()
	defer h.mu.Unlock()
	if h.wclose {
		return 0, net.ErrClosed
	}
	if h.rclose {
		return 0, io.ErrClosedPipe
	}
	if len(b) > 0 {
		h.chunks = append(h.chunks, append([]byte{}, b...))
		h.cond.Broadcast()
	}
	return len(b), nil
}

func (p *PipeEnd) Close() error {
	p.mu.Lock()
	already := p.closed
	p.closed = true
	p.mu.Unlock()
	if already {
		return nil
	}
	p.out.mu.Lock()
	p.out.wclose = true
	p.out.cond.Broadcast()
	p.out.mu.Unlock()
	p.in.mu.Lock()
	p.in.rclose = true
	p.in.cond.Broadcast()
	p.in.mu.Unlock()
	return nil
}

func (p *PipeEnd) LocalAddr() net.Addr                { return addr(p.name) }
func (p *PipeEnd) RemoteAddr() net.Addr               { return addr(p.name + "-peer") }
func (p *PipeEnd) SetDeadline(t time.Time) error      { return nil }
func (p *PipeEnd) SetReadDeadline(t time.Time) error  { return nil }
func (p *PipeEnd) SetWriteDeadline(t time.Time) error { return nil }

// Logged wraps a net.Conn: logs every operation with the effective deadlines and lets the
// harness inject a fault at any operation index.
type Logged struct {
	Inner  net.Conn
	Name   string
	mu     sync.Mutex
	Ops    []Op
	Decide func(l *Logged, kind OpKind, index int) Fault
	WDL    time.Time
	RDL    time.Time
	Closed int
}

func (l *Logged) pre(kind OpKind) (Fault, int, time.Time, time.Time) {
	l.mu.Lock()
	defer l.mu.Unlock()
	idx := len(l.Ops)
	// reserve the slot so that indices are stable even if ops overlap (they do not in practice)
	l.Ops = append(l.Ops, Op{Kind: kind, Index: idx, WDL: l.WDL, RDL: l.RDL})
	f := OK
	if l.Decide != nil {
		f = l.Decide(l, kind, idx)
	}
	return f, idx, l.WDL, l.RDL
}

func (l *Logged) post(idx int, fill func(o *Op)) {
	l.mu.Lock()
	fill(&l.Ops[idx])
	l.mu.Unlock()
}

// Snapshot returns a copy of the op log.
func (l *Logged) Snapshot() []Op {
	l.mu.Lock()
	defer l.mu.Unlock()
	return append([]Op{}, l.Ops...)
}

func (l *Logged) Read(p []byte) (int, error) {
	f, idx, _, _ := l.pre(OpRead)
	if f != OK {
		e := faultErr(f)
		l.post(idx, func(o *Op) { o.N, o.Fault, o.Err = len(p), f, e })
		return 0, e
	}
	n, err := l.Inner.Read(p)
	l.post(idx, func(o *Op) { o.N, o.Data, o.Err = len(p), append([]byte{}, p[:n]...), err })
	return n, err
}

func (l *Logged) Write(p []byte) (int, error) {
	f, idx, _, _ := l.pre(OpWrite)
	if f != OK {
		e := faultErr(f)
		l.post(idx, func(o *Op) { o.N, o.Fault, o.Err = len(p), f, e })
		return 0, e
	}
	n, err := l.Inner.Write(p)
	l.post(idx, func(o *Op) { o.N, o.Data, o.Err = len(p), append([]byte{}, p[:n]...), err })
	return n, err
}

func (l *Logged) Close() error {
	f, idx, _, _ := l.pre(OpClose)
	l.mu.Lock()
	l.Closed++
	l.mu.Unlock()
	err := l.Inner.Close()
	if f != OK {
		err = faultErr(f)
	}
	l.post(idx, func(o *Op) { o.Fault, o.Err = f, err })
	return err
}

func (l *Logged) setDL(kind OpKind, t time.Time) error {
	f, idx, _, _ := l.pre(kind)
	var err error
	if f != OK {
		err = faultErr(f)
	} else {
		l.mu.Lock()
		switch kind {
		case OpSetDeadline:
			l.WDL, l.RDL = t, t
		case OpSetReadDeadline:
			l.RDL = t
		case OpSetWriteDeadline:
			l.WDL = t
		}
		l.mu.Unlock()
	}
	l.post(idx, func(o *Op) { o.T, o.Fault, o.Err = t, f, err })
	return err
}

func (l *Logged) SetDeadline(t time.Time) error      { return l.setDL(OpSetDeadline, t) }
func (l *Logged) SetReadDeadline(t time.Time) error  { return l.setDL(OpSetReadDeadline, t) }
func (l *Logged) SetWriteDeadline(t time.Time) error { return l.setDL(OpSetWriteDeadline, t) }
func (l *Logged) LocalAddr() net.Addr                { return addr(l.Name) }
func (l *Logged) RemoteAddr() net.Addr               { return addr(l.Name + "-peer") }

// IsClosed reports whether Close was called.
func (l *Logged) IsClosed() bool {
	l.mu.Lock()
	defer l.mu.Unlock()
	return l.Closed > 0
}
