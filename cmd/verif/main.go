//go:build verif

// Command verif is the single binary behind ./run: parent (spawns sharded workers, merges,
// applies known findings, writes evidence) and worker (explores its share of scenarios).
package main

import (
	"bytes"
	"crypto/sha256"
	"encoding/json"
	"fmt"
	"io"
	"os"
	"os/exec"
	"path/filepath"
	"runtime"
	"runtime/debug"
	"runtime/pprof"
	"sort"
	"strconv"
	"strings"
	"sync"
	"time"

	"verif.local/checks"
	"verif.local/engine/explore"
)

func usage() {
	fmt.Fprintln(os.Stderr, "usage: verif run <ID> <quick|thorough> | worker <ID> <tier> <i> <n> <out> | replay <file> | list")
	os.Exit(2)
}

func main() {
	if len(os.Args) < 2 {
		usage()
	}
	switch os.Args[1] {
	case "list":
		var ids []string
		for id := range checks.Registry {
			ids = append(ids, id)
		}
		sort.Strings(ids)
		fmt.Println(strings.Join(ids, " "))
	case "run":
		if len(os.Args) != 4 {
			usage()
		}
		os.Exit(runParent(os.Args[2], os.Args[3]))
	case "worker":
		if len(os.Args) != 7 {
			usage()
		}
		i, _ := strconv.Atoi(os.Args[4])
		n, _ := strconv.Atoi(os.Args[5])
		os.Exit(runWorker(os.Args[2], os.Args[3], i, n, os.Args[6]))
	case "replay":
		if len(os.Args) != 3 {
			usage()
		}
		os.Exit(runReplay(os.Args[2]))
	default:
		usage()
	}
}

func seed() int {
	s, _ := strconv.Atoi(os.Getenv("VERIF_SEED"))
	if s < 0 {
		s = -s
	}
	return s
}

func verifDir() string {
	if d := os.Getenv("VERIF_DIR"); d != "" {
		return d
	}
	return "/verif"
}

type workerOut struct {
	Result *explore.Result `json:"result"`
	Hang   string          `json:"hang,omitempty"`
	WallS  float64         `json:"wall_s"`
}

func budgetOf(c *checks.Check, tier string) time.Duration {
	if s := os.Getenv("VERIF_BUDGET_S"); s != "" {
		if v, err := strconv.Atoi(s); err == nil {
			return time.Duration(v) * time.Second
		}
	}
	if b, ok := c.Budget[tier]; ok {
		return b
	}
	if tier == "quick" {
		return 90 * time.Second
	}
	return 15 * time.Minute
}

func runWorker(id, tier string, lo, hi int, out string) int {
	c := checks.Registry[id]
	if c == nil {
		fmt.Fprintln(os.Stderr, "unknown check", id)
		return 2
	}
	all := c.Scenarios(tier)
	if hi > len(all) {
		hi = len(all)
	}
	mine := all[lo:hi]
	if len(mine) > 0 && mine[0].Flavour != "" && lo == 0 {
		if err := explore.DeterminismGuard(mine); err != nil {
			fmt.Fprintln(os.Stderr, "INFRA: determinism guard:", err)
			return 2
		}
	}
	start := time.Now()
	gcp := 400
	if v, err := strconv.Atoi(os.Getenv("VERIF_GOGC")); err == nil {
		gcp = v
	}
	debug.SetGCPercent(gcp)
	if a := os.Getenv("VERIF_ANNOUNCE"); a != "" {
		if f, err := os.Create(a); err == nil {
			explore.Announce = func(s string) {
				b := []byte(s)
				if len(b) < 600 {
					b = append(b, bytes.Repeat([]byte(" "), 600-len(b))...)
				}
				f.WriteAt(b, 0)
			}
		}
	}
	// hang / memory watchdog
	go func() {
		last, lastT := explore.Progress.Load(), time.Now()
		for {
			time.Sleep(2 * time.Second)
			cur := explore.Progress.Load()
			if cur != last {
				last, lastT = cur, time.Now()
			} else if time.Since(lastT) > 90*time.Second {
				what, _ := explore.Current.Load().(string)
				fmt.Fprintf(os.Stderr, "watchdog: no progress for 90 s in %s\n", what)
				pprof.Lookup("goroutine").WriteTo(os.Stderr, 1)
				writeJSON(out, workerOut{Hang: "no progress for 90 s in execution " + what, WallS: time.Since(start).Seconds()})
				os.Exit(3)
			}
			var ms runtime.MemStats
			runtime.ReadMemStats(&ms)
			if ms.HeapAlloc > 6<<30 {
				what, _ := explore.Current.Load().(string)
				fmt.Fprintf(os.Stderr, "watchdog: HeapAlloc=%d HeapSys=%d HeapObjects=%d NumGC=%d PauseTotalNs=%d in %s\n", ms.HeapAlloc, ms.HeapSys, ms.HeapObjects, ms.NumGC, ms.PauseTotalNs, what)
				pprof.Lookup("goroutine").WriteTo(os.Stderr, 1)
				pprof.Lookup("heap").WriteTo(os.Stderr, 1)
				writeJSON(out, workerOut{Hang: "heap above 6 GiB in execution " + what, WallS: time.Since(start).Seconds()})
				os.Exit(3)
			}
		}
	}()
	if pf := os.Getenv("VERIF_PROFILE"); pf != "" && lo == 0 {
		f, _ := os.Create(pf)
		pprof.StartCPUProfile(f)
		defer pprof.StopCPUProfile()
	}
	dl := start.Add(budgetOf(c, tier))
	if v, err := strconv.ParseInt(os.Getenv("VERIF_DEADLINE_UNIXMS"), 10, 64); err == nil && v > 0 {
		dl = time.UnixMilli(v)
	}
	opt := explore.Options{Deadline: dl, WantSamples: 2}
	res := explore.Run(mine, opt)
	writeJSON(out, workerOut{Result: res, WallS: time.Since(start).Seconds()})
	return 0
}

// outDir is where replays (and crash logs of workers) go.
func outDir() string {
	if d := os.Getenv("VERIF_SCRATCH_OUT"); d != "" {
		return filepath.Join(d, "replays")
	}
	return filepath.Join(verifDir(), "replays")
}

func writeJSON(path string, v any) {
	b, err := json.MarshalIndent(v, "", " ")
	if err != nil {
		panic(err)
	}
	if err := os.WriteFile(path, b, 0o644); err != nil {
		panic(err)
	}
}

type knownFinding struct {
	Property string `json:"property"`
	Key      string `json:"key"`
	Status   string `json:"status"`
	Commit   string `json:"commit,omitempty"`
	What     string `json:"what"`
}

func loadKnown() []knownFinding {
	var kf struct {
		Findings []knownFinding `json:"findings"`
	}
	b, err := os.ReadFile(filepath.Join(verifDir(), "known_findings.json"))
	if err != nil {
		return nil
	}
	if err := json.Unmarshal(b, &kf); err != nil {
		fmt.Fprintln(os.Stderr, "INFRA: known_findings.json:", err)
		os.Exit(2)
	}
	return kf.Findings
}

func matchKnown(kfs []knownFinding, id, key string) *knownFinding {
	for i, k := range kfs {
		if k.Property != id || k.Status != "open" {
			continue
		}
		if k.Key == key || (strings.HasSuffix(k.Key, "*") && strings.HasPrefix(key, strings.TrimSuffix(k.Key, "*"))) {
			return &kfs[i]
		}
	}
	return nil
}

type replayFile struct {
	Property string           `json:"property"`
	Tier     string           `json:"tier"`
	Failure  *explore.Failure `json:"failure"`
}

func runParent(id, tier string) int {
	c := checks.Registry[id]
	if c == nil {
		fmt.Fprintln(os.Stderr, "unknown check", id)
		return 2
	}
	if tier != "quick" && tier != "thorough" {
		usage()
	}
	start := time.Now()
	scs := c.Scenarios(tier)
	var plainScs []*explore.Scenario
	for _, sc := range scs {
		if sc.Flavour == "" {
			plainScs = append(plainScs, sc)
		}
	}
	if err := explore.DeterminismGuard(plainScs); err != nil {
		fmt.Fprintln(os.Stderr, "INFRA: determinism guard:", err)
		return 2
	}
	n := runtime.NumCPU()
	if c.Serial {
		n = 1
	}
	if n > len(scs) {
		n = len(scs)
	}
	if v, err := strconv.Atoi(os.Getenv("VERIF_WORKERS")); err == nil && v > 0 && v < n {
		n = v
	}
	tmp, err := os.MkdirTemp("", "verif-run-")
	if err != nil {
		fmt.Fprintln(os.Stderr, "INFRA:", err)
		return 2
	}
	defer os.RemoveAll(tmp)
	self, _ := os.Executable()
	// dynamic distribution: scenarios are cut into chunks, n slots pull chunks from a queue
	chunk := (len(scs) + n*8 - 1) / (n * 8)
	if chunk < 1 {
		chunk = 1
	}
	type rng struct{ lo, hi int }
	var chunks []rng
	for lo := 0; lo < len(scs); {
		hi := min(lo+chunk, len(scs))
		for k := lo + 1; k < hi; k++ { // a chunk never mixes build flavours
			if scs[k].Flavour != scs[lo].Flavour {
				hi = k
				break
			}
		}
		chunks = append(chunks, rng{lo, hi})
		lo = hi
	}
	if sd := seed(); sd > 0 && len(chunks) > 1 {
		k := sd % len(chunks)
		chunks = append(chunks[k:], chunks[:k]...)
	}
	deadline := start.Add(budgetOf(c, tier))
	queue := make(chan rng, len(chunks))
	for _, r := range chunks {
		queue <- r
	}
	close(queue)
	merged := &explore.Result{}
	var hangs []string
	infra := false
	retried := map[int]bool{}
	var mu sync.Mutex
	var wg sync.WaitGroup
	for slot := 0; slot < n; slot++ {
		wg.Add(1)
		go func(slot int) {
			defer wg.Done()
			for r := range queue {
			again:
				out := filepath.Join(tmp, fmt.Sprintf("w%d-%d.json", slot, r.lo))
				bin := self
				switch scs[r.lo].Flavour {
				case "sched":
					bin = os.Getenv("VERIF_SCHED_BIN")
				case "race":
					bin = os.Getenv("VERIF_RACE_BIN")
				}
				if bin == "" {
					fmt.Fprintf(os.Stderr, "INFRA: no binary for flavour %q\n", scs[r.lo].Flavour)
					mu.Lock()
					infra = true
					mu.Unlock()
					continue
				}
				cmd := exec.Command(bin, "worker", id, tier, strconv.Itoa(r.lo), strconv.Itoa(r.hi), out)
				cmd.Stdout = os.Stderr
				var errBuf bytes.Buffer
				tail := &tailWriter{max: 256 << 10}
				cmd.Stderr = io.MultiWriter(os.Stderr, tail)
				cmd.Env = append(os.Environ(), "GOMAXPROCS=2", fmt.Sprintf("VERIF_DEADLINE_UNIXMS=%d", deadline.UnixMilli()))
				if scs[r.lo].Flavour == "race" {
					// the race detector is the oracle: stop at the first report, which is then
					// attributed to the execution the worker announced last
					cmd.Stderr = &errBuf
					cmd.Env = append(cmd.Env, "GORACE=halt_on_error=1 exitcode=66", "VERIF_ANNOUNCE="+out+".cur")
				}
				err := cmd.Run()
				if ee, ok := err.(*exec.ExitError); ok && ee.ExitCode() == 66 && scs[r.lo].Flavour == "race" {
					cur, _ := os.ReadFile(out + ".cur")
					rep := errBuf.String()
					mu.Lock()
					merged.Failures = append(merged.Failures, &explore.Failure{Key: id + ":data-race:" + raceSite(rep), Msg: "ThreadSanitizer reported a data race in execution " + strings.TrimSpace(string(cur)), Scenario: firstField(string(cur)), Choices: parseChoices(string(cur)), Stack: rep, Devs: 0})
					merged.Scenarios += r.hi - r.lo
					mu.Unlock()
					continue
				}
				if errBuf.Len() > 0 {
					os.Stderr.Write(errBuf.Bytes())
				}
				var wo workerOut
				b, rerr := os.ReadFile(out)
				if rerr == nil {
					rerr = json.Unmarshal(b, &wo)
				}
				os.Remove(out)
				mu.Lock()
				if rerr != nil || (err != nil && wo.Hang == "") {
					if ee, ok := err.(*exec.ExitError); ok && ee.ExitCode() != 2 && strings.Contains(tail.String(), "fatal error:") {
						// the worker process died of an unrecoverable runtime error (stack overflow,
						// out of memory, concurrent map access ...) while executing the code under
						// test: that is a finding, attributed to the scenarios of the chunk
						msg := tail.String()
						if i := strings.Index(msg, "fatal error:"); i >= 0 {
							msg = msg[i:]
						}
						first := strings.SplitN(msg, "\n", 2)[0]
						merged.Failures = append(merged.Failures, &explore.Failure{Key: id + ":crash:" + first, Msg: fmt.Sprintf("worker process died while exploring scenarios %d..%d (%s ...): %s", r.lo, r.hi-1, scs[r.lo].Name, first), Scenario: scs[r.lo].Name, Stack: msg})
						merged.Scenarios += r.hi - r.lo
						mu.Unlock()
						continue
					}
					// keep what the worker said, and give the chunk one more try: a worker that dies
					// once and completes on the second attempt was a victim of the machine, not of the
					// code under test (a reproducible death is reported as an infrastructure failure)
					crashLog := filepath.Join(outDir(), fmt.Sprintf("%s-worker-crash-%d.log", id, r.lo))
					os.MkdirAll(filepath.Dir(crashLog), 0o755)
					os.WriteFile(crashLog, []byte(tail.String()), 0o644)
					if !retried[r.lo] {
						retried[r.lo] = true
						fmt.Fprintf(os.Stderr, "note: worker for scenarios %d..%d died (%v / %v), stderr tail in %s; retrying once\n", r.lo, r.hi, err, rerr, crashLog)
						mu.Unlock()
						goto again
					}
					fmt.Fprintf(os.Stderr, "INFRA: worker for scenarios %d..%d failed twice: %v / %v (stderr tail in %s)\n", r.lo, r.hi, err, rerr, crashLog)
					infra = true
					mu.Unlock()
					continue
				}
				if wo.Hang != "" {
					// a hang or a memory blow-up caused by the code under test is deterministic: it is
					// reported only if the same chunk does it again
					hangLog := filepath.Join(outDir(), fmt.Sprintf("%s-worker-hang-%d.log", id, r.lo))
					os.MkdirAll(filepath.Dir(hangLog), 0o755)
					os.WriteFile(hangLog, []byte(tail.String()), 0o644)
					if !retried[r.lo] {
						retried[r.lo] = true
						fmt.Fprintf(os.Stderr, "note: worker for scenarios %d..%d reported %q (diagnostics in %s); running the chunk once more\n", r.lo, r.hi, wo.Hang, hangLog)
						mu.Unlock()
						goto again
					}
					hangs = append(hangs, wo.Hang)
					mu.Unlock()
					continue
				}
				w := wo.Result
				merged.Executions += w.Executions
				merged.Transitions += w.Transitions
				merged.States += w.States
				merged.Outcomes += w.Outcomes
				merged.NonTrivial += w.NonTrivial
				merged.Pruned += w.Pruned
				merged.Diverged += w.Diverged
				merged.Scenarios += w.Scenarios
				merged.ScenariosCut += w.ScenariosCut
				if w.MaxDevs > merged.MaxDevs {
					merged.MaxDevs = w.MaxDevs
				}
				merged.Failures = append(merged.Failures, w.Failures...)
				merged.Samples = append(merged.Samples, w.Samples...)
				if len(merged.Samples) > 64 {
					sort.SliceStable(merged.Samples, func(i, j int) bool { return len(merged.Samples[i].Choices) > len(merged.Samples[j].Choices) })
					merged.Samples = merged.Samples[:16]
				}
				merged.PerScenario = append(merged.PerScenario, w.PerScenario...)
				mu.Unlock()
			}
		}(slot)
	}
	wg.Wait()
	if infra {
		return 2
	}
	// dedupe failures by key (keep fewest deviations)
	byKey := map[string]*explore.Failure{}
	for _, f := range merged.Failures {
		if o, ok := byKey[f.Key]; !ok || f.Devs < o.Devs {
			byKey[f.Key] = f
		}
	}
	for i, h := range hangs {
		byKey[fmt.Sprintf("hang:%d", i)] = &explore.Failure{Key: "hang:" + id, Msg: h}
	}
	keys := make([]string, 0, len(byKey))
	for k := range byKey {
		keys = append(keys, k)
	}
	sort.Strings(keys)
	kfs := loadKnown()
	violations := 0
	var knownHit []string
	replayDir := filepath.Join(verifDir(), "replays")
	evidenceDir := filepath.Join(verifDir(), "evidence")
	if d := os.Getenv("VERIF_SCRATCH_OUT"); d != "" {
		// mutation runs: keep replays/evidence of a mutated tree out of /verif
		replayDir, evidenceDir = filepath.Join(d, "replays"), filepath.Join(d, "evidence")
	}
	os.MkdirAll(replayDir, 0o755)
	for _, k := range keys {
		f := byKey[k]
		if kf := matchKnown(kfs, id, f.Key); kf != nil {
			fmt.Printf("KNOWN-FINDING: property=%s %s [key %s]\n", id, kf.What, f.Key)
			knownHit = append(knownHit, f.Key)
			continue
		}
		violations++
		sum := sha256.Sum256([]byte(f.Key + f.Scenario + fmt.Sprint(f.Choices)))
		path := filepath.Join(replayDir, fmt.Sprintf("%s-%x.json", id, sum[:6]))
		writeJSON(path, replayFile{Property: id, Tier: tier, Failure: f})
		fmt.Printf("VIOLATION property=%s replay=%s\n", id, path)
		fmt.Printf("  key: %s\n  scenario: %s\n  deviations: %d\n  what: %s\n", f.Key, f.Scenario, f.Devs, f.Msg)
	}
	sort.Slice(merged.PerScenario, func(i, j int) bool { return merged.PerScenario[i].Executions > merged.PerScenario[j].Executions })
	if len(merged.PerScenario) > 24 {
		merged.PerScenario = merged.PerScenario[:24]
	}
	wall := time.Since(start).Seconds()
	exhaustive := merged.ScenariosCut == 0 && len(hangs) == 0 && merged.Diverged == 0
	if merged.Diverged > 0 {
		fmt.Fprintf(os.Stderr, "note: %d executions did not follow their recorded prefix: the code under test carries state from one execution to the next (a package-level cache or pool); exploration went on, the run is not exhaustive\n", merged.Diverged)
	}
	// prefer samples that took choices (they show what an explored case looks like)
	sort.SliceStable(merged.Samples, func(i, j int) bool { return len(merged.Samples[i].Choices) > len(merged.Samples[j].Choices) })
	if len(merged.Samples) > 4 {
		merged.Samples = merged.Samples[:4]
	}
	samples := []any{}
	for _, s := range merged.Samples {
		samples = append(samples, s)
	}
	if len(samples) == 0 {
		samples = append(samples, "no sample recorded")
	}
	states := merged.States
	if states < 1 {
		states = 1
	}
	ev := map[string]any{
		"property_id": id,
		"tier":        tier,
		"seed":        seed(),
		"level":       "model_checking",
		"wall_s":      wall,
		"violations":  violations,
		"assumptions": c.Assumptions,
		"coverage": map[string]any{
			"states":                        states,
			"transitions":                   merged.Transitions,
			"traces_validated_against_impl": merged.Executions,
			"samples":                       samples,
			"evaluations":                   merged.Executions,
			"distinct_nontrivial":           merged.NonTrivial,
			"outcomes_distinct":             merged.Outcomes,
			"rule":                          c.Rule,
			"exhaustive":                    exhaustive,
			"bound":                         c.Bound[tier],
			"max_deviations_reached":        merged.MaxDevs,
			"scenarios":                     merged.Scenarios,
			"scenarios_cut_by_budget":       merged.ScenariosCut,
			"state_pruned_executions":       merged.Pruned,
			"diverged_executions":           merged.Diverged,
			"workers":                       n,
			"known_findings_hit":            knownHit,
			"largest_scenarios":             merged.PerScenario,
			"technique":                     c.Technique,
			"explanation":                   "every execution is an execution of the real implementation (no separate model): traces_validated_against_impl == executions",
		},
	}
	os.MkdirAll(evidenceDir, 0o755)
	writeJSON(filepath.Join(evidenceDir, id+".json"), ev)
	fmt.Printf("%s %s: executions=%d states=%d transitions=%d outcomes=%d nontrivial=%d scenarios=%d cut=%d exhaustive=%v violations=%d known=%d wall=%.1fs\n",
		id, tier, merged.Executions, merged.States, merged.Transitions, merged.Outcomes, merged.NonTrivial, merged.Scenarios, merged.ScenariosCut, exhaustive, violations, len(knownHit), wall)
	if merged.Outcomes <= 1 && merged.Executions > 10 {
		fmt.Println("WARNING: vacuity: one outcome from many executions")
	}
	if violations > 0 {
		return 1
	}
	return 0
}

// tailWriter keeps the last max bytes written to it.
type tailWriter struct {
	mu  sync.Mutex
	buf []byte
	max int
}

func (t *tailWriter) Write(p []byte) (int, error) {
	t.mu.Lock()
	defer t.mu.Unlock()
	t.buf = append(t.buf, p...)
	if len(t.buf) > t.max {
		t.buf = t.buf[len(t.buf)-t.max:]
	}
	return len(p), nil
}

func (t *tailWriter) String() string {
	t.mu.Lock()
	defer t.mu.Unlock()
	return string(t.buf)
}

// raceSite extracts the first two frames of the package under test from a race report.
func raceSite(rep string) string {
	var sites []string
	for _, l := range strings.Split(rep, "\n") {
		l = strings.TrimSpace(l)
		if strings.HasPrefix(l, "github.com/gorilla/websocket.") {
			if i := strings.LastIndex(l, "("); i > 0 {
				l = l[:i]
			}
			l = strings.TrimPrefix(l, "github.com/gorilla/websocket.")
			if len(sites) == 0 || sites[len(sites)-1] != l {
				sites = append(sites, l)
			}
			if len(sites) == 2 {
				break
			}
		}
	}
	if len(sites) == 0 {
		return "outside-package"
	}
	return strings.Join(sites, "|")
}

func firstField(s string) string {
	f := strings.Fields(s)
	if len(f) == 0 {
		return ""
	}
	return f[0]
}

func parseChoices(s string) []int {
	i := strings.Index(s, "[")
	j := strings.LastIndex(s, "]")
	if i < 0 || j < i {
		return nil
	}
	var r []int
	for _, f := range strings.Fields(s[i+1 : j]) {
		if v, err := strconv.Atoi(f); err == nil {
			r = append(r, v)
		}
	}
	return r
}

func runReplay(path string) int {
	b, err := os.ReadFile(path)
	if err != nil {
		fmt.Fprintln(os.Stderr, err)
		return 2
	}
	var rf replayFile
	if err := json.Unmarshal(b, &rf); err != nil {
		fmt.Fprintln(os.Stderr, err)
		return 2
	}
	c := checks.Registry[rf.Property]
	if c == nil || rf.Failure == nil {
		fmt.Fprintln(os.Stderr, "bad replay file")
		return 2
	}
	for _, tier := range []string{rf.Tier, "quick", "thorough"} {
		for _, sc := range c.Scenarios(tier) {
			if sc.Name != rf.Failure.Scenario {
				continue
			}
			x := explore.Replay(sc, rf.Failure.Choices)
			for _, l := range x.Log() {
				fmt.Println("  ", l)
			}
			if f := x.Failure(); f != nil {
				fmt.Printf("VIOLATION property=%s replay=%s\n  key: %s\n  what: %s\n", rf.Property, path, f.Key, f.Msg)
				if f.Stack != "" {
					fmt.Println(f.Stack)
				}
				return 1
			}
			fmt.Println("replay: no violation (the property holds on this execution now)")
			return 0
		}
	}
	fmt.Fprintln(os.Stderr, "scenario not found:", rf.Failure.Scenario)
	return 2
}
