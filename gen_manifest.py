#!/usr/bin/env python3
"""Regenerates MANIFEST.json from the table below (kept in one place so it stays valid)."""
import json
CLAIMED = {
 "C04": dict(tech="explicit-state model checking: exhaustive enumeration of (protocol state x next-frame header alphabet) on the real reader against an independent RFC 6455 classifier",
             text="Every protocol state reached by a valid prefix x every next frame over the full header alphabet is executed on the real Conn; verdicts come from an independent classifier. Complete product, no sampling.",
             note="ref/wsref classifier written from RFC 6455; don't-care classes listed in DESIGN.md §6; compress/flate inflater trusted", ref="§4 C04"),
}
ALL = ["C%02d"%i for i in range(1,21)]
PENDING_REASON = "check not built yet in this round (planned, see DESIGN.md §4); not claimed until its harness exists and passes on the unchanged tree"
m = {
 "version": 1,
 "setup_cmd": "./run setup",
 "hooks": {
   "guard": "verif",
   "enable": "go build -tags verif -overlay <generated json> (./run generates it: adds engine/overlay/zz_verif_export.go to package websocket; no file in /repo is edited)",
   "baseline_off_cmd": "cd /repo && go test -vet=off -count=1 ./...",
   "source_commits": [],
   "add_only": True,
 },
 "engines": [
   {"name": "explore", "path": "engine/explore", "serves_properties": sorted(CLAIMED), "kind_free_text": "deviation-bounded stateless DFS over harness choices executed on the real implementation; process-sharded; replay files"},
 ],
 "checks": [],
 "not_applicable": [],
 "notes": "All verdicts come from exhaustive enumeration of a stated bounded space of executions of the real code (model checking family). See DESIGN.md.",
}
for pid in ALL:
    if pid in CLAIMED:
        c = CLAIMED[pid]
        m["checks"].append({
          "property_id": pid,
          "quick_cmd": "./run %s quick" % pid,
          "thorough_cmd": "./run %s thorough" % pid,
          "evidence_file": "evidence/%s.json" % pid,
          "replay_cmd_template": "./run replay {path}",
          "engine": "explore",
          "level_claimed": {"category": "model_checking", "text": c["text"], "design_ref": c["ref"]},
          "level_note": c["note"],
          "technique": c["tech"],
        })
    else:
        m["not_applicable"].append({"property_id": pid, "reason": PENDING_REASON})
json.dump(m, open("MANIFEST.json","w"), indent=1)
print("claimed:", sorted(CLAIMED))
