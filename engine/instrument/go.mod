module verif.local/instrument

go 1.23

require golang.org/x/tools v0.29.0
