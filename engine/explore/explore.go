// Package explore is the deviation-bounded stateless explorer shared by every check.
//
// A harness is a function body(x *Ctx) that builds fresh real objects and calls
// x.Choose / x.Pick wherever the property's quantifier has a choice.  The engine re-executes
// the body for every choice sequence within the deviation bound (choice 0 is the default
// answer; a non-zero answer at a Choose point costs one deviation, Pick points are free
// dimensions that are enumerated completely).  Executions always run to completion.
package explore

import (
	"fmt"
	"hash/fnv"
	"os"
	"runtime/debug"
	"sort"
	"strings"
	"sync/atomic"
	"time"
)

// Point is one choice point of an execution.
type Point struct {
	N      int    `json:"n"`
	Chosen int    `json:"c"`
	Free   bool   `json:"free,omitempty"`
	Label  string `json:"label,omitempty"`
}

// Failure describes a property violation found in one execution.
type Failure struct {
	Key      string   `json:"key"` // canonical signature (matched against known_findings.json)
	Msg      string   `json:"msg"`
	Scenario string   `json:"scenario"`
	Choices  []int    `json:"choices"`
	Labels   []string `json:"labels,omitempty"`
	Devs     int      `json:"deviations"`
	Log      []string `json:"log,omitempty"`
	Stack    string   `json:"stack,omitempty"`
}

type failSentinel struct{}
type pruneSentinel struct{}

// Ctx is handed to the harness body for one execution.
type Ctx struct {
	prefix  []int
	trace   []Point
	h       uint64 // history hash: choices + observations (state identity)
	ho      uint64 // observation-only hash (outcome identity)
	Verbose bool
	// Strict: a prefix that does not fit is a hard error (replay of a recorded execution);
	// Diverged: it happened while exploring and the execution went on with an in-range choice
	Strict   bool
	Diverged bool
	log      []string
	fail     *Failure
	sc       *scenarioRun
	nontriv  bool
	devs     int
	steps    int
	pruned   bool
}

const fnvOff = 14695981039346656037
const fnvPrime = 1099511628211

//go:norace
func (x *Ctx) mix(s string) {
	h := x.h
	for i := 0; i < len(s); i++ {
		h ^= uint64(s[i])
		h *= fnvPrime
	}
	h ^= 0xff
	h *= fnvPrime
	x.h = h
}

//go:norace
func (x *Ctx) mixo(s string) {
	h := x.ho
	for i := 0; i < len(s); i++ {
		h ^= uint64(s[i])
		h *= fnvPrime
	}
	h ^= 0xff
	h *= fnvPrime
	x.ho = h
}

//go:norace
func (x *Ctx) choose(n int, label string, free bool) int {
	if n <= 0 {
		panic(fmt.Sprintf("explore: Choose(%d) at %q", n, label))
	}
	i := len(x.trace)
	c := 0
	if i < len(x.prefix) {
		c = x.prefix[i]
		if c >= n {
			if x.Strict {
				// replaying a recorded execution: divergence is a hard infrastructure error, never a violation
				fmt.Fprintf(os.Stderr, "INFRA: replay divergence at point %d (%s): choice %d out of range %d; prefix=%v\n", i, label, c, n, x.prefix)
				os.Exit(2)
			}
			// exploring: the prefix was recorded a moment ago in this very process, so the code under
			// test carries state from one execution to the next (a package-level cache or pool the
			// harness does not know).  Any in-range choice still gives a legitimate execution: go on
			// with one, and count the event (the run is then not exhaustive).
			c %= n
			x.Diverged = true
		}
	}
	if c != 0 && !free {
		x.devs++
	}
	x.trace = append(x.trace, Point{N: n, Chosen: c, Free: free, Label: label})
	if x.sc != nil {
		if i >= len(x.prefix) {
			// a tree node not visited by any earlier execution (distinct choice/observation history)
			x.sc.newNodes++
		}
		x.sc.transitions++
	}
	x.mix(label)
	x.mix(string(rune('0' + c)))
	if x.Verbose {
		x.log = append(x.log, fmt.Sprintf("choice %s = %d/%d", label, c, n))
	}
	return c
}

// Choose returns a value in [0,n); 0 is the default, anything else costs one deviation.
//
//go:norace
func (x *Ctx) Choose(n int, label string) int { return x.choose(n, label, false) }

// Pick returns a value in [0,n) of a free dimension (enumerated completely).
//
//go:norace
func (x *Ctx) Pick(n int, label string) int { return x.choose(n, label, true) }

// Bool is Choose(2) as a boolean.
//
//go:norace
func (x *Ctx) Bool(label string) bool { return x.choose(2, label, false) == 1 }

// Obs records an observation of the implementation (folded into the state/outcome hash).
//
//go:norace
func (x *Ctx) Obs(format string, a ...any) {
	s := format
	if len(a) > 0 {
		s = fmt.Sprintf(format, a...)
	}
	x.mix(s)
	x.mixo(s)
	x.steps++
	if x.sc != nil {
		x.sc.transitions++
	}
	if x.Verbose {
		x.log = append(x.log, s)
	}
}

// Logf adds a line to the replay log only (not hashed).
//
//go:norace
func (x *Ctx) Logf(format string, a ...any) {
	if x.Verbose {
		x.log = append(x.log, fmt.Sprintf(format, a...))
	}
}

// NonTrivial marks the execution as one in which the code under test produced/consumed
// protocol data (used for distinct_nontrivial).
//
//go:norace
func (x *Ctx) NonTrivial() { x.nontriv = true }

// Deviations returns the number of deviations taken so far.
//
//go:norace
func (x *Ctx) Deviations() int { return x.devs }

// Failf reports a violation and ends the execution.
//
//go:norace
func (x *Ctx) Failf(key, format string, a ...any) {
	if x.fail == nil {
		x.fail = &Failure{Key: key, Msg: fmt.Sprintf(format, a...)}
	}
	panic(failSentinel{})
}

// Check is Failf unless ok.
//
//go:norace
func (x *Ctx) Check(ok bool, key, format string, a ...any) {
	if !ok {
		x.Failf(key, format, a...)
	}
}

// Prune ends the execution if the canonical state key was already expanded with at least
// the remaining deviation budget (state-hash pruning).  Only has an effect beyond the
// replayed prefix.
//
//go:norace
func (x *Ctx) Prune(key string) {
	if x.sc == nil || !x.sc.prune || len(x.trace) < len(x.prefix) {
		return
	}
	hh := fnv.New64a()
	hh.Write([]byte(key))
	k := hh.Sum64()
	rem := x.sc.bound - x.devs
	if old, ok := x.sc.seen[k]; ok && old >= rem {
		x.pruned = true
		x.sc.prunedN++
		panic(pruneSentinel{})
	}
	x.sc.seen[k] = rem
}

// Scenario is one exploration root.
type Scenario struct {
	Name    string
	Bound   int // deviation bound
	Prune   bool
	Flavour string // "" = plain build; "sched" = instrumented build under the scheduler; "race" = same with -race
	Body    func(x *Ctx)
}

// Result is the merged outcome of exploring scenarios.
type Result struct {
	Executions   int64      `json:"executions"`
	Transitions  int64      `json:"transitions"`
	States       int64      `json:"states"`
	Outcomes     int64      `json:"outcomes"`
	NonTrivial   int64      `json:"nontrivial"`
	Pruned       int64      `json:"pruned"`
	Diverged     int64      `json:"diverged"` // executions whose recorded prefix no longer fitted (state carried across executions)
	Scenarios    int        `json:"scenarios"`
	ScenariosCut int        `json:"scenarios_cut"` // scenarios not finished because of the budget
	MaxDevs      int        `json:"max_devs"`
	Failures     []*Failure `json:"failures,omitempty"`
	Samples      []Sample   `json:"samples,omitempty"`
	PerScenario  []ScenStat `json:"per_scenario,omitempty"`
}

type Sample struct {
	Scenario string   `json:"scenario"`
	Choices  []string `json:"choices"`
	Log      []string `json:"log,omitempty"`
}

type ScenStat struct {
	Name       string `json:"name"`
	Executions int64  `json:"executions"`
	States     int64  `json:"states"`
	Outcomes   int64  `json:"outcomes"`
	Complete   bool   `json:"complete"`
}

type scenarioRun struct {
	bound       int
	prune       bool
	seen        map[uint64]int
	newNodes    int64
	outcomes    map[uint64]struct{}
	nontrivial  map[uint64]struct{}
	transitions int64
	prunedN     int64
}

// Progress is bumped once per execution; the watchdog uses it.
var Progress atomic.Int64

// Current holds a description of the execution in flight (for the hang watchdog).
var Current atomic.Value

// Options controls a run.
type Options struct {
	Deadline    time.Time // zero = none
	MaxFailKeys int
	WantSamples int
}

// Announce, when set, is told which execution is about to start (race flavour: the parent
// attributes a ThreadSanitizer report to the execution announced last).
var Announce func(string)

// OnExecStart, when set, runs before every execution (used to reset deterministic sources).
var OnExecStart func()

// Exec runs the body once with the given prefix (then defaults) and returns the context.
func Exec(sc *Scenario, prefix []int, verbose bool, run *scenarioRun) (x *Ctx) {
	x = &Ctx{prefix: prefix, h: fnvOff, ho: fnvOff, Verbose: verbose, sc: run, Strict: strictNext}
	strictNext = false
	if OnExecStart != nil {
		OnExecStart()
	}
	defer func() {
		if r := recover(); r != nil {
			switch r.(type) {
			case failSentinel:
			case pruneSentinel:
			default:
				if x.fail == nil {
					st := string(debug.Stack())
					x.fail = &Failure{Key: "panic:" + panicSite(st), Msg: fmt.Sprintf("panic: %v", r), Stack: st}
				}
			}
		}
	}()
	sc.Body(x)
	if OnExecEnd != nil {
		OnExecEnd(x)
	}
	return x
}

// OnExecEnd, when set, runs after every execution whose body returned normally (generic
// end-of-execution oracles; it may fail the execution through x).
var OnExecEnd func(x *Ctx)

// panicSite extracts the first non-runtime frame of a stack as a stable key.
func panicSite(st string) string {
	lines := strings.Split(st, "\n")
	seenPanic := false
	for i := 0; i < len(lines); i++ {
		l := lines[i]
		if strings.HasPrefix(l, "panic(") {
			seenPanic = true
			continue
		}
		if !seenPanic || strings.HasPrefix(l, "\t") || strings.HasPrefix(l, "runtime.") || strings.HasPrefix(l, "goroutine") || l == "" {
			continue
		}
		if j := strings.LastIndex(l, "("); j > 0 {
			l = l[:j]
		}
		return l
	}
	return "unknown"
}

// Replay executes one choice sequence verbosely.
func Replay(sc *Scenario, choices []int) *Ctx {
	run := newRun(sc)
	strictNext = true
	return Exec(sc, choices, true, run)
}

// strictNext makes the next Exec treat a prefix that does not fit as a hard error (user replays).
var strictNext bool

func newRun(sc *Scenario) *scenarioRun {
	return &scenarioRun{bound: sc.Bound, prune: sc.Prune, seen: map[uint64]int{},
		outcomes: map[uint64]struct{}{}, nontrivial: map[uint64]struct{}{}}
}

// Run explores the scenarios and merges the result.
func Run(scs []*Scenario, opt Options) *Result {
	res := &Result{}
	if opt.MaxFailKeys == 0 {
		opt.MaxFailKeys = 40
	}
	failKeys := map[string]*Failure{}
	for _, sc := range scs {
		if !opt.Deadline.IsZero() && time.Now().After(opt.Deadline) {
			res.ScenariosCut++
			continue
		}
		complete := exploreOne(sc, opt, res, failKeys)
		if !complete {
			res.ScenariosCut++
		}
		res.Scenarios++
	}
	keys := make([]string, 0, len(failKeys))
	for k := range failKeys {
		keys = append(keys, k)
	}
	sort.Strings(keys)
	for _, k := range keys {
		res.Failures = append(res.Failures, failKeys[k])
	}
	return res
}

func exploreOne(sc *Scenario, opt Options, res *Result, failKeys map[string]*Failure) bool {
	run := newRun(sc)
	stack := [][]int{nil}
	var execs int64
	complete := true
	for len(stack) > 0 {
		if !opt.Deadline.IsZero() && execs&63 == 0 && time.Now().After(opt.Deadline) {
			complete = false
			break
		}
		prefix := stack[len(stack)-1]
		stack = stack[:len(stack)-1]
		if Announce != nil {
			Announce(fmt.Sprintf("%s %v", sc.Name, prefix))
		} else {
			Current.Store(fmt.Sprintf("%s %v", sc.Name, prefix))
		}
		x := Exec(sc, prefix, false, run)
		Progress.Add(1)
		execs++
		if x.Diverged {
			res.Diverged++
		}
		if x.devs > res.MaxDevs {
			res.MaxDevs = x.devs
		}
		if x.fail != nil {
			f := x.fail
			old, ok := failKeys[f.Key]
			if !ok && len(failKeys) >= opt.MaxFailKeys {
				// enough distinct failures collected
			} else if !ok || x.devs < old.Devs || (x.devs == old.Devs && len(x.trace) < len(old.Choices)) {
				// re-run verbosely for the log; must reproduce identically
				y := Exec(sc, choicesOf(x.trace), true, newRun(sc))
				if y.fail == nil || y.fail.Key != f.Key {
					// The same choice sequence gave a different result the second time: the code
					// under test carries state from one execution to the next (the harness owns
					// every other source of nondeterminism).  The failure was observed on the real
					// code, so it is reported; the replay may or may not show it again.
					second := "no failure"
					if y.fail != nil {
						second = y.fail.Key
					}
					f.Msg += fmt.Sprintf(" [UNSTABLE: re-executing the same choices gave %q - behaviour depends on state carried over from earlier executions in the same process]", second)
					f.Key += ":unstable"
				}
				f.Scenario = sc.Name
				f.Choices = choicesOf(x.trace)
				f.Labels = labelsOf(x.trace)
				f.Devs = x.devs
				f.Log = y.log
				failKeys[f.Key] = f
			}
		}
		if !x.pruned {
			run.outcomes[x.ho] = struct{}{}
			if x.nontriv && hasNonZero(x.trace) {
				run.nontrivial[x.ho] = struct{}{}
			}
		}
		if len(res.Samples) < opt.WantSamples && (execs == 1 || execs == 17) {
			y := Exec(sc, choicesOf(x.trace), true, newRun(sc))
			lg := y.log
			if len(lg) > 40 {
				lg = append(lg[:40:40], "...")
			}
			res.Samples = append(res.Samples, Sample{Scenario: sc.Name, Choices: labelsOf(x.trace), Log: lg})
		}
		// expand
		dev := 0
		for i := 0; i < len(x.trace); i++ {
			p := x.trace[i]
			if i >= len(prefix) {
				for alt := p.N - 1; alt >= 1; alt-- {
					c := dev
					if !p.Free {
						c++
					}
					if c > sc.Bound {
						continue
					}
					np := make([]int, i+1)
					for j := 0; j < i; j++ {
						np[j] = x.trace[j].Chosen
					}
					np[i] = alt
					stack = append(stack, np)
				}
			}
			if p.Chosen != 0 && !p.Free {
				dev++
			}
		}
	}
	res.Executions += execs
	res.Transitions += run.transitions
	res.States += run.newNodes + 1
	res.Outcomes += int64(len(run.outcomes))
	res.NonTrivial += int64(len(run.nontrivial))
	res.Pruned += run.prunedN
	if len(res.PerScenario) < 400 {
		res.PerScenario = append(res.PerScenario, ScenStat{sc.Name, execs, run.newNodes + 1, int64(len(run.outcomes)), complete})
	}
	return complete
}

func hasNonZero(t []Point) bool {
	for _, p := range t {
		if p.Chosen != 0 {
			return true
		}
	}
	return false
}

func choicesOf(t []Point) []int {
	r := make([]int, len(t))
	for i, p := range t {
		r[i] = p.Chosen
	}
	return r
}

func labelsOf(t []Point) []string {
	r := make([]string, len(t))
	for i, p := range t {
		r[i] = fmt.Sprintf("%s=%d/%d", p.Label, p.Chosen, p.N)
	}
	return r
}

// DeterminismGuard executes the first scenario's default path and one deviating path twice
// and compares the observation hashes.
func DeterminismGuard(scs []*Scenario) error {
	for i, sc := range scs {
		if i >= 3 {
			break
		}
		a := Exec(sc, nil, true, newRun(sc))
		b := Exec(sc, nil, true, newRun(sc))
		if a.h != b.h || len(a.trace) != len(b.trace) {
			return fmt.Errorf("scenario %s: two runs of the default path differ:\n%s\n---\n%s", sc.Name, strings.Join(a.log, "\n"), strings.Join(b.log, "\n"))
		}
		// last deviating point
		for j := len(a.trace) - 1; j >= 0; j-- {
			if a.trace[j].N > 1 {
				pre := append(choicesOf(a.trace[:j]), a.trace[j].N-1)
				c := Exec(sc, pre, true, newRun(sc))
				d := Exec(sc, pre, true, newRun(sc))
				if c.h != d.h {
					return fmt.Errorf("scenario %s: two runs of %v differ", sc.Name, pre)
				}
				break
			}
		}
	}
	return nil
}

// Log returns the verbose log of the execution.
//
//go:norace
func (x *Ctx) Log() []string { return x.log }

// Failure returns the violation found in this execution, if any.
//
//go:norace
func (x *Ctx) Failure() *Failure { return x.fail }
