//go:build verif

package checks

import (
	"bytes"
	"fmt"
	"io"
	"time"

	"github.com/gorilla/websocket"
	"verif.local/engine/explore"
	"verif.local/engine/vrt"
	"verif.local/ref/netsim"
	"verif.local/ref/wsref"
)

func init() {
	Register(&Check{
		ID:          "C09",
		Technique:   "stateless model checking of the real Conn under a controlled scheduler: all interleavings (up to a preemption bound) of a writer program, a closer (WriteControl / default close handler / automatic 1002 / automatic 1009 / writer-path close) and an optional WriteControl(ping) caller, with scheduling points at every channel, mutex and transport operation",
		Rule:        "scenarios = {role} x {deflate} x {6 writer programs} x {6 closer paths} x {ping caller present or not}; within each every schedule with at most 2 (quick) / 3-4 (thorough) preemptions is executed; oracle evaluated on the global event order (API call begin/end, transport write begin/end). non-trivial = a close frame reached the transport and a non-default schedule; distinct by observation hash (wire digest + results)",
		Assumptions: []string{"scheduling points: channel send/receive/select, mutex Lock, once, pool Get/Put, transport SetWriteDeadline / Write-begin / Write-end / Close (instrumented through a generated go build overlay, nothing in /repo is edited)", "memory-model reorderings are not modelled"},
		Flavour:     "sched",
		Budget:      map[string]time.Duration{"quick": 100 * time.Second, "thorough": 25 * time.Minute},
		Bound:       map[string]string{"quick": "preemptions <= 2, 2-3 threads", "thorough": "preemptions <= 3 (3 threads) / 4 (2 threads)"},
		Scenarios:   c09Scenarios,
	})
}

var c09Progs = []string{"NextWriter+Write(flush)+Write+Close", "WriteMessage", "WriteJSON", "WritePreparedMessage", "NextWriter+Write(400: two-part frame on a server)+Close", "WriteMessage(300: two-part frame on a server)"}
var c09Closers = []string{"WriteControl(close)", "reader:close-frame", "reader:protocol-error", "reader:read-limit", "writer:WriteMessage(close)", "writer:NextWriter(close)"}

func c09Scenarios(tier string) []*explore.Scenario {
	var scs []*explore.Scenario
	for _, server := range []bool{true, false} {
		for _, deflate := range []bool{false, true} {
			for pi := range c09Progs {
				for ki := range c09Closers {
					for _, ping := range []bool{false, true} {
						if tier == "quick" && ((deflate && (pi == 2 || pi >= 4 || ki >= 4)) || (pi >= 4 && ping)) {
							continue
						}
						server, deflate, pi, ki, ping := server, deflate, pi, ki, ping
						bound := 2
						if tier == "thorough" {
							bound = 4
							if ping {
								bound = 3
							}
						}
						scs = append(scs, &explore.Scenario{
							Name:    fmt.Sprintf("c09/writer=%s/deflate=%v/prog=%d/closer=%d/ping=%v", roleName(server), deflate, pi, ki, ping),
							Bound:   bound,
							Flavour: "sched",
							Body:    func(x *explore.Ctx) { c09Body(x, server, deflate, pi, ki, ping) },
						})
					}
				}
			}
		}
	}
	return scs
}

type c09Msg struct {
	payload []byte
	typ     int
	ok      bool // the API reported it as sent
	call    int
}

func c09Body(x *explore.Ctx, server, deflate bool, pi, ki int, ping bool) {
	s, l := newSched(x)
	// the connection under test also reads (closer paths 1-3): feed it what the closer needs
	masked := server
	mk := maskKeys[3]
	var in []byte
	switch ki {
	case 1:
		in = wsref.Encode(wsref.Frame{Fin: true, Opcode: wsref.OpClose, Masked: masked, Key: mk, Payload: wsref.CloseBody(1000, "bye")})
	case 2:
		in = wsref.Encode(wsref.Frame{Fin: true, Rsv2: true, Opcode: wsref.OpText, Masked: masked, Key: mk, Payload: []byte("x")})
	case 3:
		in = wsref.Encode(wsref.Frame{Fin: true, Opcode: wsref.OpText, Masked: masked, Key: mk, Payload: Pattern(0, 50)})
	}
	nc := netsim.NewConn(in)
	hookTransport(l, nc, "c")
	c := websocket.VerifNewConn(nc, server, 0, 125, nil, deflate)
	if ki == 3 {
		c.SetReadLimit(10)
	}
	var msgs []*c09Msg
	record := func(m *c09Msg, err error) {
		m.ok = err == nil
		m.call = len(l.calls) - 1
	}
	big := Pattern(3, 200)
	pm, _ := websocket.NewPreparedMessage(websocket.BinaryMessage, Pattern(0, 40))
	writerClose := func() {
		switch ki {
		case 4:
			l.call("WriteMessage(close)", func() error { return c.WriteMessage(websocket.CloseMessage, wsref.CloseBody(1000, "w")) })
		case 5:
			l.call("NextWriter(close)+Close", func() error {
				w, err := c.NextWriter(websocket.CloseMessage)
				if err != nil {
					return err
				}
				w.Write(wsref.CloseBody(1001, ""))
				return w.Close()
			})
		}
	}
	s.Go("W", func() {
		switch pi {
		case 0:
			m := &c09Msg{typ: websocket.BinaryMessage, payload: append(append([]byte{}, big...), []byte("tail")...)}
			msgs = append(msgs, m)
			var w io.WriteCloser
			if l.call("NextWriter", func() (err error) { w, err = c.NextWriter(websocket.BinaryMessage); return }) != nil {
				break
			}
			l.call("Write(200)", func() error { _, err := w.Write(big); return err })
			l.call("Write(4)", func() error { _, err := w.Write([]byte("tail")); return err })
			record(m, l.call("Close", func() error { return w.Close() }))
		case 1:
			m := &c09Msg{typ: websocket.TextMessage, payload: Pattern(4, 50)}
			msgs = append(msgs, m)
			record(m, l.call("WriteMessage", func() error { return c.WriteMessage(websocket.TextMessage, m.payload) }))
		case 2:
			m := &c09Msg{typ: websocket.TextMessage, payload: []byte("\"json\"\n")}
			msgs = append(msgs, m)
			record(m, l.call("WriteJSON", func() error { return c.WriteJSON("json") }))
		case 3:
			m := &c09Msg{typ: websocket.BinaryMessage, payload: Pattern(0, 40)}
			msgs = append(msgs, m)
			record(m, l.call("WritePreparedMessage", func() error { return c.WritePreparedMessage(pm) }))
		case 4:
			huge := Pattern(3, 400)
			m := &c09Msg{typ: websocket.BinaryMessage, payload: huge}
			msgs = append(msgs, m)
			var w io.WriteCloser
			if l.call("NextWriter", func() (err error) { w, err = c.NextWriter(websocket.BinaryMessage); return }) != nil {
				break
			}
			l.call("Write(400)", func() error { _, err := w.Write(huge); return err })
			record(m, l.call("Close", func() error { return w.Close() }))
		case 5:
			m := &c09Msg{typ: websocket.BinaryMessage, payload: Pattern(0, 300)}
			msgs = append(msgs, m)
			record(m, l.call("WriteMessage", func() error { return c.WriteMessage(websocket.BinaryMessage, m.payload) }))
		}
		writerClose()
		m2 := &c09Msg{typ: websocket.TextMessage, payload: []byte("second")}
		msgs = append(msgs, m2)
		record(m2, l.call("WriteMessage#2", func() error { return c.WriteMessage(websocket.TextMessage, m2.payload) }))
	})
	switch ki {
	case 0:
		s.Go("K", func() {
			l.call("WriteControl(close)", func() error {
				return c.WriteControl(websocket.CloseMessage, wsref.CloseBody(1000, "k"), time.Time{})
			})
		})
	case 1, 2, 3:
		s.Go("K", func() {
			l.call("ReadMessage", func() error { _, _, err := c.ReadMessage(); return err })
		})
	}
	if ping {
		s.Go("P", func() {
			l.call("WriteControl(ping)", func() error { return c.WriteControl(websocket.PingMessage, []byte("pp"), time.Time{}) })
			l.call("WriteControl(pong)#2", func() error { return c.WriteControl(websocket.PongMessage, nil, time.Time{}) })
		})
	}
	s.Run()
	for _, t := range s.Trace {
		x.Logf("schedule: %s", t)
	}
	c09Judge(x, s, l, nc, server, deflate, msgs)
}

func c09Judge(x *explore.Ctx, s *vrt.Sched, l *schedLog, nc *netsim.Conn, server, deflate bool, msgs []*c09Msg) {
	key := func(what string) string {
		return fmt.Sprintf("C09:%s:writer=%s:deflate=%v", what, roleName(server), deflate)
	}
	x.Check(s.Deadlock == "", key("deadlock"), "%s", s.Deadlock)
	d, err := wsref.DecodeStrict(nc.Out, wsref.StrictOpts{Sender: RoleOf(server), Deflate: deflate, AllowPartial: true})
	var res []string
	for _, c := range l.calls {
		res = append(res, fmt.Sprintf("%s:%s=%v", c.Thread, c.Name, c.Err))
	}
	x.Obs("wire=%d frames err=%v calls=%v", len(d.Frames), err, res)
	x.Check(err == nil && len(d.Rest) == 0, key("wire-malformed"), "wire is not a sequence of whole well-formed frames: %v (rest %d bytes)", err, len(d.Rest))
	// the first close frame
	closeFrame := -1
	for i, f := range d.Frames {
		if f.Opcode == wsref.OpClose {
			closeFrame = i
			break
		}
	}
	if closeFrame < 0 {
		// the closing path is best effort (e.g. the handler's WriteControl timed out while the
		// writer held the connection): the property's antecedent is false in this execution
		x.Obs("no close frame written")
		x.Check(len(d.Data()) == countOK(msgs), key("reported-sent-mismatch"), "no close written: %d complete data messages on the wire, %d reported sent", len(d.Data()), countOK(msgs))
		return
	}
	x.NonTrivial()
	x.Check(closeFrame == len(d.Frames)-1, key("bytes-after-close"), "%d frames were written after the close frame: %v", len(d.Frames)-1-closeFrame, d.Frames[closeFrame+1:])
	// which transport Write carried the close frame, and when did it complete?
	off, wi := 0, -1
	for i, w := range nc.Writes {
		if d.Frames[closeFrame].Off >= off && d.Frames[closeFrame].Off < off+len(w) {
			wi = i
		}
		off += len(w)
	}
	closeDone := -1
	closer := ""
	for _, e := range l.events {
		if e.Kind == evWriteEnd && e.Write == wi {
			closeDone, closer = e.Seq, e.Thread
		}
	}
	x.Check(closeDone >= 0, key("infra"), "close frame's transport write not found in the event log")
	// "written" = the API call that wrote the close frame has returned (calls overlapping
	// it are concurrent with it and may be linearised before it)
	closeReturned := closeDone
	for _, c := range l.calls {
		if c.Thread == closer && c.Begin < closeDone && c.End > closeDone {
			closeReturned = c.End
		}
	}
	for _, c := range l.calls {
		if c.Begin < closeReturned {
			continue
		}
		switch c.Name {
		case "Write(200)", "Write(4)", "Write(400)", "ReadMessage":
			continue // a buffered Write may still succeed; the writer must fail no later than its Close
		}
		x.Check(c.Err != nil, key("write-after-close-accepted:"+c.Name), "%s began after the close frame had been written and returned nil", c.Name)
		if c.Name != "Close" {
			x.Check(c.Err == websocket.ErrCloseSent, key("write-after-close-error:"+c.Name), "%s began after the close frame had been written and returned %v, want ErrCloseSent", c.Name, c.Err)
		}
	}
	// messages reported as sent are exactly the complete data messages on the wire
	var sent []*c09Msg
	for _, m := range msgs {
		if m.ok {
			sent = append(sent, m)
		}
	}
	data := d.Data()
	x.Check(len(data) == len(sent), key("reported-sent-mismatch"), "%d data messages are complete on the wire but %d were reported as sent (calls %v)", len(data), len(sent), res)
	for i := range data {
		x.Check(data[i].Type == sent[i].typ && bytes.Equal(data[i].Payload, sent[i].payload), key("payload"), "wire message %d differs from what was written", i)
	}
}

func countOK(msgs []*c09Msg) int {
	n := 0
	for _, m := range msgs {
		if m.ok {
			n++
		}
	}
	return n
}
