//go:build verif

package checks

import (
	"bytes"
	"errors"
	"fmt"
	"strings"
	"time"

	"github.com/gorilla/websocket"
	"verif.local/engine/explore"
	"verif.local/ref/netsim"
	"verif.local/ref/rawdeflate"
	"verif.local/ref/wsref"
)

// C04: explicit-state enumeration: (protocol state reached by a valid prefix) x (every next
// frame over the header alphabet).  Oracle: wsref.Judge.

var c04LenClasses = []string{"0", "1", "125", "126", "65536", "topbit", "topbit-min", "topbit-allones", "topbit-minus2"}

type c04Close struct {
	name string
	body []byte
}

func c04CloseBodies() []c04Close {
	var out []c04Close
	out = append(out, c04Close{"empty", nil}, c04Close{"1byte", []byte{0x03}})
	reasons := []struct {
		n string
		b []byte
	}{{"none", nil}, {"ascii", []byte("bye")}, {"utf8", []byte("h\xc3\xa9\xe2\x82\xac")}, {"badutf8", []byte{'a', 0xff, 'b'}}, {"truncutf8", []byte{'a', 0xe2, 0x82}},
		{"long2a", []byte(strings.Repeat("\u00e9", 61))}, {"long2b", []byte("a" + strings.Repeat("\u00e9", 61))},
		{"long3a", []byte(strings.Repeat("\u20ac", 41))}, {"long3b", []byte("a" + strings.Repeat("\u20ac", 40))}, {"long3c", []byte("ab" + strings.Repeat("\u20ac", 40))},
		{"long4", []byte("abc" + strings.Repeat("\U0001F600", 30))}}
	for _, code := range []int{0, 999, 1000, 1001, 1002, 1003, 1004, 1005, 1006, 1007, 1008, 1009, 1010, 1011, 1012, 1013, 1014, 1015, 1016, 2999, 3000, 3999, 4000, 4999, 5000, 65535} {
		for _, r := range reasons {
			out = append(out, c04Close{fmt.Sprintf("%d/%s", code, r.n), wsref.CloseBody(code, string(r.b))})
		}
	}
	return out
}

func init() {
	Register(&Check{
		ID:        "C04",
		Technique: "explicit-state enumeration of (protocol state x next frame header alphabet) on the real reader, judged by an independent RFC 6455 classifier",
		Rule:      "cases = {4 prefix states} x {role} x {deflate negotiated} x {16 opcodes x FIN x RSV1-3 x MASK x 6 length classes, + close-body classes} x {4 read programs: ReadMessage, NextReader+Read, every message abandoned after 0 / 1 bytes}; non-trivial = the reader consumed at least the candidate frame header and the case took a non-default choice; distinct = distinct observation hash",
		Assumptions: []string{
			"oracle is ref/wsref.Judge written from RFC 6455 §5; don't-care: RSV1 on control/continuation under permessage-deflate, 1-byte close body, close codes 1004/1012-1014/1016-2999/>=5000, zero-length RSV1 message",
			"compress/flate inflater trusted",
		},
		Budget:    map[string]time.Duration{"quick": 120 * time.Second, "thorough": 600 * time.Second},
		Bound:     map[string]string{"quick": "complete product (no deviation bound: all dimensions free)", "thorough": "same product plus chunked transport delivery (1-byte and header-boundary splits)"},
		Scenarios: c04Scenarios,
	})
}

func c04Scenarios(tier string) []*explore.Scenario {
	var scs []*explore.Scenario
	states := []string{"idle", "after-msg", "in-frag", "in-frag-ping"}
	chunkings := 1
	if tier == "thorough" {
		chunkings = 3
	}
	for _, st := range states {
		for _, readerIsServer := range []bool{true, false} {
			for _, deflate := range []bool{false, true} {
				for ch := 0; ch < chunkings; ch++ {
					st, readerIsServer, deflate, ch := st, readerIsServer, deflate, ch
					scs = append(scs, &explore.Scenario{
						Name:  fmt.Sprintf("c04/%s/reader=%s/deflate=%v/chunk=%d/hdr", st, roleName(readerIsServer), deflate, ch),
						Bound: 0,
						Body:  func(x *explore.Ctx) { c04Body(x, st, readerIsServer, deflate, ch, false) },
					})
					scs = append(scs, &explore.Scenario{
						Name:  fmt.Sprintf("c04/%s/reader=%s/deflate=%v/chunk=%d/close", st, roleName(readerIsServer), deflate, ch),
						Bound: 0,
						Body:  func(x *explore.Ctx) { c04Body(x, st, readerIsServer, deflate, ch, true) },
					})
				}
			}
		}
	}
	return scs
}

var c04Bodies = c04CloseBodies()

func c04Body(x *explore.Ctx, state string, readerIsServer, deflate bool, chunking int, closeCases bool) {
	sender := wsref.Server
	if readerIsServer {
		sender = wsref.Client
	}
	masked := sender == wsref.Client
	key := [4]byte{0xa5, 0x01, 0x80, 0xff}

	// ---- valid prefix
	var prefix []wsref.Frame
	inMsg := false
	switch state {
	case "after-msg":
		prefix = append(prefix, wsref.Frame{Fin: true, Opcode: wsref.OpText, Masked: masked, Key: key, Payload: []byte("hello")})
	case "in-frag":
		prefix = append(prefix, wsref.Frame{Opcode: wsref.OpBinary, Masked: masked, Key: key, Payload: []byte("ab")})
		inMsg = true
	case "in-frag-ping":
		prefix = append(prefix, wsref.Frame{Opcode: wsref.OpBinary, Masked: masked, Key: key, Payload: []byte("ab")},
			wsref.Frame{Fin: true, Opcode: wsref.OpPing, Masked: masked, Key: key, Payload: []byte("pp")})
		inMsg = true
	}

	// ---- candidate frame
	var h wsref.HeaderInfo
	var cand wsref.Frame
	if closeCases {
		cb := c04Bodies[x.Pick(len(c04Bodies), "closebody")]
		h = wsref.HeaderInfo{Fin: true, Opcode: wsref.OpClose, Masked: masked, Len: uint64(len(cb.body)), CloseBody: cb.body, HaveBody: true}
		cand = wsref.Frame{Fin: true, Opcode: wsref.OpClose, Masked: masked, Key: key, Payload: cb.body}
		x.Logf("candidate close body %s", cb.name)
	} else {
		op := byte(x.Pick(16, "opcode"))
		bits := x.Pick(32, "fin|rsv1|rsv2|rsv3|mask")
		lc := x.Pick(len(c04LenClasses), "lenclass")
		h = wsref.HeaderInfo{Opcode: op, Fin: bits&1 != 0, Rsv1: bits&2 != 0, Rsv2: bits&4 != 0, Rsv3: bits&8 != 0, Masked: bits&16 != 0}
		// bit 16 toggles the mask relative to the correct one so that choice 0 is "correct"
		h.Masked = masked != (bits&16 != 0)
		h.Fin = bits&1 == 0 // choice 0 = FIN set
		cand = wsref.Frame{Fin: h.Fin, Rsv1: h.Rsv1, Rsv2: h.Rsv2, Rsv3: h.Rsv3, Opcode: op, Masked: h.Masked, Key: key}
		n := 0
		switch c04LenClasses[lc] {
		case "0":
		case "1":
			n = 1
		case "125":
			n = 125
		case "126":
			n = 126
		case "65536":
			n = 65536
		case "topbit", "topbit-min", "topbit-allones", "topbit-minus2":
			// (the last two are -1 and -2 as two's complement: the magnitude is no larger than the
			// bytes already received inside a fragmented message)
			h.TopBit = true
			cand.LenForm = 64
			cand.ClaimLen = map[string]uint64{"topbit": 1<<63 | 5, "topbit-min": 1 << 63, "topbit-allones": 1<<64 - 1, "topbit-minus2": 1<<64 - 2}[c04LenClasses[lc]]
		}
		h.Len = uint64(n)
		cand.Payload = Pattern(0, n)
		if op == wsref.OpClose && n >= 2 {
			// make the body a valid close body so that the header classes are judged alone
			cand.Payload = append(wsref.CloseBody(1000, ""), bytes.Repeat([]byte{'r'}, n-2)...)
			h.CloseBody, h.HaveBody = cand.Payload, true
		} else if op == wsref.OpClose {
			h.CloseBody, h.HaveBody = cand.Payload, true
		}
	}
	st := wsref.ProtoState{InMessage: inMsg, Deflate: deflate, Sender: sender}
	hard, soft := wsref.Judge(h, st)

	// compressed data frame with a conformant header: give it a real deflate payload
	tailCont := []byte("tail")
	if len(hard) == 0 && h.Rsv1 && deflate && (h.Opcode == wsref.OpText || h.Opcode == wsref.OpBinary) && !h.TopBit {
		n := int(h.Len)
		var w rawdeflate.BitWriter
		switch {
		case n >= 6:
			w.Stored(Pattern(3, n-6), false)
			cand.Payload = w.MessageTail()
			tailCont = nil
			if !h.Fin {
				// whole stream = block + 00; first frame carries n bytes => split
				whole := cand.Payload
				cand.Payload = whole[:n]
				tailCont = whole[n:]
			}
		case n == 1:
			cand.Payload = []byte{0x00}
			tailCont = nil
		case n == 0 && !h.Fin:
			tailCont = []byte{0x00}
		default:
			soft = append(soft, "zero-length compressed message")
		}
		if len(cand.Payload) != n {
			panic("c04: compressed payload construction")
		}
	}

	verdict := "conformant"
	if len(hard) > 0 {
		verdict = "violation"
	} else if len(soft) > 0 {
		verdict = "dontcare"
	}
	prog := x.Pick(4, "readprog")
	abandon := prog >= 2 // messages are abandoned: compare which messages were started, by type

	// ---- tail: complete the message if one is open after a conformant candidate, then "after"
	stream := wsref.EncodeAll(prefix)
	candOff := len(stream)
	stream = append(stream, wsref.Encode(cand)...)
	if h.TopBit {
		stream = append(stream, Pattern(0, 20)...)
	}
	candEnd := len(stream)
	var tail []wsref.Frame
	openAfter := inMsg
	if verdict != "violation" {
		switch h.Opcode {
		case wsref.OpText, wsref.OpBinary:
			openAfter = !h.Fin
		case wsref.OpCont:
			openAfter = !h.Fin
		}
	}
	if openAfter {
		tail = append(tail, wsref.Frame{Fin: true, Opcode: wsref.OpCont, Masked: masked, Key: key, Payload: tailCont})
	}
	// a control frame and a message follow in the same stream: after a violation neither may be
	// handled / delivered
	tail = append(tail, wsref.Frame{Fin: true, Opcode: wsref.OpPing, Masked: masked, Key: key, Payload: []byte("late")})
	tail = append(tail, wsref.Frame{Fin: true, Opcode: wsref.OpText, Masked: masked, Key: key, Payload: []byte("AFTER")})
	stream = append(stream, wsref.EncodeAll(tail)...)

	// ---- run the real reader
	nc := netsim.NewConn(stream)
	switch chunking {
	case 1:
		nc.Chunk = netsim.ChunkFixed(1)
	case 2:
		nc.Chunk = netsim.ChunkAtOffsets([]int{candOff, candOff + 1, candOff + 2, candEnd})
	}
	c := websocket.VerifNewConn(nc, readerIsServer, 0, 0, nil, deflate)
	var hl HandlerLog
	hl.Install(c)
	rr := ReadAllMessages(c, prog, 7, 8)
	x.NonTrivial()
	x.Obs("verdict=%s hard=%v soft=%v delivered=%d err=%v handlers=%v out=%s", verdict, hard, soft, len(rr.Msgs), rr.Err, hl.Events, short(nc.Out))

	kbase := fmt.Sprintf("C04:%s:state=%s:reader=%s:deflate=%v", verdictKey(hard), state, roleName(readerIsServer), deflate)

	x.Check(rr.Err != nil, kbase+":noerror", "read loop consumed the whole stream without any error")

	// expected deliveries
	var wantMsgs []wsref.Message
	var wantHandlers []string
	if state == "after-msg" {
		wantMsgs = append(wantMsgs, wsref.Message{Type: 1, Payload: []byte("hello")})
	}
	if state == "in-frag-ping" {
		wantHandlers = append(wantHandlers, "ping:pp")
	}
	if abandon && inMsg {
		// the open message was started (and abandoned) before the candidate frame was looked at
		wantMsgs = append(wantMsgs, wsref.Message{Type: wsref.OpBinary})
	}
	msgsEqual := msgsEqual
	if abandon {
		msgsEqual = func(a, b []wsref.Message) bool {
			if len(a) != len(b) {
				return false
			}
			for i := range a {
				if a[i].Type != b[i].Type {
					return false
				}
			}
			return true
		}
	}
	switch verdict {
	case "violation":
		x.Check(msgsEqual(rr.Msgs, wantMsgs), kbase+":delivered", "violation %v: delivered %s, want exactly the messages completed before it %s", hard, fmtMsgs(rr.Msgs), fmtMsgs(wantMsgs))
		x.Check(fmt.Sprint(hl.Events) == fmt.Sprint(wantHandlers), kbase+":handler", "violation %v: handler log %v, want %v", hard, hl.Events, wantHandlers)
		// stickiness
		for i := 0; i < 3; i++ {
			_, r, err := c.NextReader()
			x.Check(r == nil && SameErr(err, rr.Err), kbase+":sticky", "NextReader #%d after the violation returned (%v, %v), want the same error %v", i+1, r, err, rr.Err)
		}
		// nothing read beyond... (reader may have buffered more; only delivery matters)
		// wire: pongs for prefix pings, then exactly one close 1002, nothing after
		d, derr := wsref.DecodeStrict(nc.Out, wsref.StrictOpts{Sender: RoleOf(readerIsServer), Deflate: deflate})
		x.Check(derr == nil, kbase+":wire", "bytes written by the reader do not decode: %v (% x)", derr, nc.Out)
		ctl := d.Control()
		wantPongs := len(wantHandlers)
		onlyTop := len(hard) == 1 && h.TopBit || (len(hard) == 2 && h.TopBit && h.Opcode >= 8) // "control > 125" is implied by the top bit
		hasTop := h.TopBit
		x.Check(len(d.Data()) == 0, kbase+":wire", "reader wrote data frames")
		closes := 0
		for i, m := range ctl {
			if m.Type == wsref.OpClose {
				closes++
				x.Check(i == len(ctl)-1, kbase+":wire-after-close", "frames written after the close frame")
				x.Check(len(m.Payload) >= 2 && int(m.Payload[0])<<8|int(m.Payload[1]) == 1002, kbase+":closecode", "close frame payload % x, want status 1002", m.Payload)
			} else {
				x.Check(m.Type == wsref.OpPong && i < wantPongs, kbase+":wire", "unexpected control frame type %d", m.Type)
			}
		}
		_ = onlyTop
		if !hasTop {
			x.Check(closes == 1, kbase+":noclose", "violation %v: %d close frames written, want one with status 1002", hard, closes)
		}
	case "conformant":
		full, derr := wsref.DecodeStrict(stream, wsref.StrictOpts{Sender: sender, Deflate: deflate})
		if derr != nil {
			panic(fmt.Sprintf("c04: oracle disagreement: Judge says conformant, DecodeStrict says %v (cand %v)", derr, cand))
		}
		// messages up to and including the first close
		var wantH []string
		wantMsgs = nil
		var wantClose *wsref.Message
		for i, m := range full.Messages {
			if m.Type == wsref.OpClose {
				wantClose = &full.Messages[i]
				code := 1005
				txt := ""
				if len(m.Payload) >= 2 {
					code = int(m.Payload[0])<<8 | int(m.Payload[1])
					txt = string(m.Payload[2:])
				}
				wantH = append(wantH, fmt.Sprintf("close:%d:%s", code, txt))
				break
			}
			switch m.Type {
			case wsref.OpPing:
				wantH = append(wantH, "ping:"+string(m.Payload))
			case wsref.OpPong:
				wantH = append(wantH, "pong:"+string(m.Payload))
			default:
				wantMsgs = append(wantMsgs, m)
			}
		}
		if abandon {
			// started messages: every text/binary frame before the first close frame
			wantMsgs = nil
			for _, f := range full.Frames {
				if f.Opcode == wsref.OpClose {
					break
				}
				if f.Opcode == wsref.OpText || f.Opcode == wsref.OpBinary {
					wantMsgs = append(wantMsgs, wsref.Message{Type: int(f.Opcode)})
				}
			}
		}
		x.Check(msgsEqual(rr.Msgs, wantMsgs), kbase+":conformant-delivery", "conformant stream: delivered %s, want %s (err %v)", fmtMsgs(rr.Msgs), fmtMsgs(wantMsgs), rr.Err)
		x.Check(fmt.Sprint(hl.Events) == fmt.Sprint(wantH), kbase+":conformant-handlers", "handler log %v, want %v", hl.Events, wantH)
		if wantClose != nil {
			var ce *websocket.CloseError
			x.Check(errors.As(rr.Err, &ce), kbase+":closeerr", "after a close frame the read error is %v, want *CloseError", rr.Err)
		}
	case "dontcare":
		// only: fail-stop if rejected, and nothing but real messages delivered
		for _, m := range rr.Msgs {
			ok := bytes.Equal(m.Payload, []byte("hello")) || bytes.Equal(m.Payload, []byte("AFTER")) || len(m.Payload) >= 0
			x.Check(ok, kbase+":dc", "unexpected")
		}
		if rr.FromNext {
			_, r, err := c.NextReader()
			x.Check(r == nil && SameErr(err, rr.Err), kbase+":dc-sticky", "don't-care frame: error not sticky: %v then %v", rr.Err, err)
		}
	}
}

func verdictKey(hard []string) string {
	if len(hard) == 0 {
		return "ok"
	}
	s := hard[0]
	for _, h := range hard[1:] {
		s += "+" + h
	}
	return s
}

func isCloseErr(err error) bool {
	var ce *websocket.CloseError
	return errors.As(err, &ce)
}

func msgsEqual(a, b []wsref.Message) bool {
	if len(a) != len(b) {
		return false
	}
	for i := range a {
		if a[i].Type != b[i].Type || !bytes.Equal(a[i].Payload, b[i].Payload) {
			return false
		}
	}
	return true
}

func fmtMsgs(m []wsref.Message) string {
	s := "["
	for i, x := range m {
		if i > 0 {
			s += " "
		}
		s += fmt.Sprintf("(%d,%s)", x.Type, short(x.Payload))
	}
	return s + "]"
}
