#!/bin/bash
# ./run selftest [name-pattern]: every mutant in mutants/index.json must (a) pass the repository's own tests and
# (b) be reported by the quick command of each listed check. Prints a table; exit 1 if a mutant is missed.
cd "$(dirname "$0")/.." || exit 2
pat="${1:-}"
rc=0
python3 - "$pat" <<'PY' > /tmp/selftest.list
import json,sys
idx=json.load(open('mutants/index.json'))
for k,v in sorted(idx.items()):
    if sys.argv[1] and sys.argv[1] not in k: continue
    print(k, ' '.join(v['checks']))
PY
while read -r name checks; do
  out=$(tools/mutest.sh "mutants/$name" $checks 2>&1)
  echo "$out" | grep -E '^(CAUGHT|MISSED|REPO-TESTS-FAIL|PATCH-FAILED)'
  echo "$out" | grep -qE '^(MISSED|REPO-TESTS-FAIL|PATCH-FAILED)' && rc=1
done < /tmp/selftest.list
rm -f /tmp/selftest.list
exit $rc
