// Package hsref is the handshake reference: RFC 7230 token lists, the RFC 6455 §4 accept
// digest, the "valid opening handshake" predicate and RFC 3986 authority extraction.
// It shares no code with the library under test.
package hsref

import (
	"crypto/sha1"
	"encoding/base64"
	"regexp"
	"strings"
)

const GUID = "258EAFA5-E914-47DA-95CA-C5AB0DC85B11"

// AcceptKey computes base64(SHA-1(key ‖ GUID)) (RFC 6455 §4.2.2).
func AcceptKey(key string) string {
	h := sha1.Sum([]byte(key + GUID))
	return base64.StdEncoding.EncodeToString(h[:])
}

func isTchar(c byte) bool {
	switch {
	case c >= '0' && c <= '9', c >= 'a' && c <= 'z', c >= 'A' && c <= 'Z':
		return true
	}
	return strings.IndexByte("!#$%&'*+-.^_`|~", c) >= 0
}

// IsToken reports whether s is an RFC 7230 token.
func IsToken(s string) bool {
	if s == "" {
		return false
	}
	for i := 0; i < len(s); i++ {
		if !isTchar(s[i]) {
			return false
		}
	}
	return true
}

func trimOWS(s string) string { return strings.Trim(s, " \t") }

// TokenList splits header field values as 1#token.  wellFormed is false when any element
// is empty or not a token (such lines are a don't-care for the checks).
func TokenList(values []string) (tokens []string, wellFormed bool) {
	wellFormed = true
	for _, v := range values {
		for _, el := range strings.Split(v, ",") {
			el = trimOWS(el)
			if !IsToken(el) {
				wellFormed = false
				continue
			}
			tokens = append(tokens, el)
		}
	}
	return
}

// FoldASCII lower-cases A-Z only.
func FoldASCII(s string) string {
	b := []byte(s)
	for i, c := range b {
		if c >= 'A' && c <= 'Z' {
			b[i] = c + 'a' - 'A'
		}
	}
	return string(b)
}

// ContainsToken: does the list contain tok (ASCII case-insensitively)?  Lines are judged
// one by one ("anywhere in comma-separated lists across header lines"): a line that is a
// well-formed 1#token list and contains tok decides the question whatever the other lines
// look like.  decided=false when tok was found only on a line that also has empty or malformed
// elements, or was not found while some line is malformed.
func ContainsToken(values []string, tok string) (has, decided bool) {
	allWF := true
	for _, v := range values {
		lineWF, lineHas := true, false
		for _, el := range strings.Split(v, ",") {
			el = trimOWS(el)
			if !IsToken(el) {
				lineWF = false
				continue
			}
			if FoldASCII(el) == FoldASCII(tok) {
				lineHas = true
			}
		}
		if lineWF && lineHas {
			return true, true
		}
		if lineHas {
			has = true
		}
		if !lineWF {
			allWF = false
		}
	}
	if has {
		return true, false
	}
	return false, allWF
}

// ValidKey: base64 (standard alphabet, padded) of exactly 16 bytes.
func ValidKey(k string) bool {
	if len(k) != 24 || !strings.HasSuffix(k, "==") || strings.HasSuffix(k, "===") {
		return false
	}
	const alpha = "ABCDEFGHIJKLMNOPQRSTUVWXYZabcdefghijklmnopqrstuvwxyz0123456789+/"
	for i := 0; i < 22; i++ {
		if strings.IndexByte(alpha, k[i]) < 0 {
			return false
		}
	}
	// the last sextet before padding carries 4 data bits + 2 zero bits (canonical form is
	// not required by RFC 4648 decoders in general; accept either)
	return true
}

// Extension is one element of Sec-WebSocket-Extensions.
type Extension struct {
	Name   string
	Params map[string]string
}

// ParseExtensions parses extension-list (RFC 6455 §9.1).  wellFormed=false on any syntax
// error in any line.
func ParseExtensions(values []string) (exts []Extension, wellFormed bool) {
	wellFormed = true
	for _, v := range values {
		for _, el := range splitOutsideQuotes(v, ',') {
			parts := splitOutsideQuotes(el, ';')
			name := trimOWS(parts[0])
			if !IsToken(name) {
				wellFormed = false
				continue
			}
			e := Extension{Name: name, Params: map[string]string{}}
			ok := true
			for _, p := range parts[1:] {
				p = trimOWS(p)
				k, val, hasEq := strings.Cut(p, "=")
				k = trimOWS(k)
				if !IsToken(k) {
					ok = false
					break
				}
				if hasEq {
					val = trimOWS(val)
					if strings.HasPrefix(val, "\"") {
						if len(val) < 2 || !strings.HasSuffix(val, "\"") {
							ok = false
							break
						}
						val = val[1 : len(val)-1]
						if !IsToken(strings.ReplaceAll(val, "\\", "")) {
							ok = false
							break
						}
					} else if !IsToken(val) {
						ok = false
						break
					}
				}
				e.Params[k] = val
			}
			if !ok {
				wellFormed = false
				continue
			}
			exts = append(exts, e)
		}
	}
	return
}

func splitOutsideQuotes(s string, sep byte) []string {
	var out []string
	inQ := false
	start := 0
	for i := 0; i < len(s); i++ {
		switch {
		case s[i] == '"':
			inQ = !inQ
		case s[i] == '\\' && inQ:
			i++
		case s[i] == sep && !inQ:
			out = append(out, s[start:i])
			start = i + 1
		}
	}
	return append(out, s[start:])
}

// Request is the part of an upgrade request the predicate needs.
type Request struct {
	Method string
	Header map[string][]string // canonical MIME keys
	Host   string
}

// Verdict of ValidOpeningHandshake.
type Verdict struct {
	Valid    bool
	Decided  bool     // false: the property text is silent on this input (don't-care)
	Problems []string // why invalid
	Soft     []string // why undecided
	// which individual requirements failed
	NoUpgradeToken, NoConnectionToken, BadMethod, BadVersion, BadKey bool
}

// ValidOpeningHandshake judges everything except the origin policy.
func ValidOpeningHandshake(r Request) Verdict {
	v := Verdict{Decided: true}
	if r.Method != "GET" {
		v.BadMethod = true
		v.Problems = append(v.Problems, "method")
	}
	has, dec := ContainsToken(r.Header["Connection"], "upgrade")
	if !has {
		if !dec {
			v.Soft = append(v.Soft, "malformed Connection")
		}
		v.NoConnectionToken = true
		v.Problems = append(v.Problems, "connection")
	} else if !dec {
		v.Soft = append(v.Soft, "malformed Connection element next to a valid one")
	}
	has, dec = ContainsToken(r.Header["Upgrade"], "websocket")
	if !has {
		if !dec {
			v.Soft = append(v.Soft, "malformed Upgrade")
		}
		v.NoUpgradeToken = true
		v.Problems = append(v.Problems, "upgrade")
	} else if !dec {
		v.Soft = append(v.Soft, "malformed Upgrade element next to a valid one")
	}
	vers := r.Header["Sec-Websocket-Version"]
	toks, wf := TokenList(vers)
	switch {
	case len(vers) == 1 && trimOWS(vers[0]) == "13":
	case len(toks) > 1 && contains(toks, "13"):
		v.Soft = append(v.Soft, "version list containing 13")
	case !wf && contains(toks, "13"):
		v.Soft = append(v.Soft, "malformed version list containing 13")
	case len(vers) > 1 && contains(toks, "13"):
		v.Soft = append(v.Soft, "several version lines")
	default:
		v.BadVersion = true
		v.Problems = append(v.Problems, "version")
	}
	keys := r.Header["Sec-Websocket-Key"]
	switch {
	case len(keys) == 1 && ValidKey(keys[0]):
	case len(keys) > 1:
		v.Soft = append(v.Soft, "several key lines")
	case len(keys) == 1 && ValidKey(trimOWS(keys[0])):
		v.Soft = append(v.Soft, "key with surrounding whitespace")
	default:
		v.BadKey = true
		v.Problems = append(v.Problems, "key")
	}
	v.Valid = len(v.Problems) == 0
	if len(v.Soft) > 0 {
		v.Decided = false
	}
	return v
}

func contains(l []string, s string) bool {
	for _, x := range l {
		if x == s {
			return true
		}
	}
	return false
}

// ---------------------------------------------------------------------------------------
// RFC 3986

var uriRe = regexp.MustCompile(`^(([^:/?#]+):)?(//([^/?#]*))?([^?#]*)(\?([^#]*))?(#(.*))?`) // appendix B

// Authority extracts the authority's host[:port] (userinfo stripped, percent-decoded) from
// a URI reference; ok=false when there is no authority component.
func Authority(uri string) (hostport string, ok bool) {
	m := uriRe.FindStringSubmatch(uri)
	if m == nil || m[3] == "" {
		return "", false
	}
	a := m[4]
	if i := strings.LastIndexByte(a, '@'); i >= 0 {
		a = a[i+1:]
	}
	// percent-decode
	var b strings.Builder
	for i := 0; i < len(a); i++ {
		if a[i] == '%' && i+2 < len(a) && isHex(a[i+1]) && isHex(a[i+2]) {
			b.WriteByte(unhex(a[i+1])<<4 | unhex(a[i+2]))
			i += 2
			continue
		}
		b.WriteByte(a[i])
	}
	return b.String(), true
}

func isHex(c byte) bool {
	return c >= '0' && c <= '9' || c >= 'a' && c <= 'f' || c >= 'A' && c <= 'F'
}

func unhex(c byte) byte {
	switch {
	case c >= '0' && c <= '9':
		return c - '0'
	case c >= 'a' && c <= 'f':
		return c - 'a' + 10
	}
	return c - 'A' + 10
}

// ---------------------------------------------------------------------------------------
// HTTP/1.1 message head parsing (line level, strict)

// Head is a parsed request or response head.
type Head struct {
	StartLine string
	Lines     [][2]string // name, value (OWS-trimmed), in order
	Rest      []byte      // bytes after the blank line
	Problems  []string
}

// ParseHead splits a message head at CRLF; bare CR or LF inside a line is a problem.
func ParseHead(b []byte) *Head {
	h := &Head{}
	s := string(b)
	end := strings.Index(s, "\r\n\r\n")
	if end < 0 {
		h.Problems = append(h.Problems, "no blank line")
		end = len(s)
		s += "\r\n\r\n"
	}
	head := s[:end]
	h.Rest = []byte(s[end+4:])
	lines := strings.Split(head, "\r\n")
	h.StartLine = lines[0]
	for _, l := range lines[1:] {
		if strings.ContainsAny(l, "\r\n") {
			h.Problems = append(h.Problems, "bare CR/LF in header line")
		}
		name, val, ok := strings.Cut(l, ":")
		if !ok || !IsToken(name) {
			h.Problems = append(h.Problems, "malformed header line: "+l)
			continue
		}
		h.Lines = append(h.Lines, [2]string{name, trimOWS(val)})
	}
	if strings.ContainsAny(h.StartLine, "\r\n") {
		h.Problems = append(h.Problems, "bare CR/LF in start line")
	}
	return h
}

// Get returns all values of a header (name compared case-insensitively).
func (h *Head) Get(name string) []string {
	var r []string
	for _, l := range h.Lines {
		if strings.EqualFold(l[0], name) {
			r = append(r, l[1])
		}
	}
	return r
}

// NamesExtensionOutsideQuotes reports whether name occurs as the name of a list element
// (the part before the first ';' of a comma-separated element) once every quoted-string
// (RFC 7230 lexing, backslash escapes honoured) has been removed.  When it does not, no
// reasonable parser can consider the extension offered.
func NamesExtensionOutsideQuotes(values []string, name string) bool {
	for _, v := range values {
		var b strings.Builder
		inQ := false
		for i := 0; i < len(v); i++ {
			c := v[i]
			switch {
			case inQ && c == '\\':
				i++
			case c == '"':
				inQ = !inQ
				b.WriteByte(' ')
			case !inQ:
				b.WriteByte(c)
			}
		}
		for _, el := range strings.Split(b.String(), ",") {
			n, _, _ := strings.Cut(el, ";")
			if FoldASCII(trimOWS(n)) == FoldASCII(name) {
				return true
			}
		}
	}
	return false
}
