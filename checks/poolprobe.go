package checks

import (
	"bytes"
	"fmt"
	"io"

	"github.com/gorilla/websocket"
	"verif.local/engine/explore"
	"verif.local/engine/vrt"
	"verif.local/ref/netsim"
	"verif.local/ref/wsref"
)

// End-of-execution oracle shared by every plain-flavour check: permessage-deflate takes its
// compressors and decompressors from package-level pools, so a connection that returns one twice
// (or keeps using it after returning it) breaks *other* connections, not itself.  Looking for the
// damage on unrelated connections after every execution would double the cost of every check, so
// a census of the pools (an object pooled twice) is used as the trigger, and the verdict is the
// property-level probe below: two fresh connections with a compressed message open on each at the
// same time must still write, and read, exactly their own messages.  The census alone never fails
// an execution.

func init() {
	explore.OnExecEnd = func(x *explore.Ctx) {
		if vrt.Active != nil {
			return
		}
		w, r := websocket.VerifPoolCensus()
		if w > 0 {
			twinWriteProbe(x, fmt.Sprintf("after this execution %d pooled compressor(s) sit in the pool twice", w))
		}
		if r > 0 {
			twinReadProbe(x, fmt.Sprintf("after this execution %d pooled decompressor(s) sit in the pool twice", r))
		}
	}
}

var (
	twinA1 = []byte("connection A, first half / ")
	twinA2 = []byte("connection A, second half AAAAAAAAAAAAAAAAAAAAAAAAAAAAAAAAAA")
	twinB  = []byte("connection B, the whole message bbbbbbbbbbbbbbbbbbbbbbbbbbbbbbbbbbbb")
)

// twinWriteProbe: A opens a compressed message and writes half of it, B opens one, writes and
// closes it, then A finishes.  Both wires must decode (independent decoder) to the own message.
func twinWriteProbe(x *explore.Ctx, why string) {
	na, nb := netsim.NewConn(nil), netsim.NewConn(nil)
	a := websocket.VerifNewConn(na, true, 0, 0, nil, true)
	b := websocket.VerifNewConn(nb, true, 0, 0, nil, true)
	wa, err := a.NextWriter(websocket.TextMessage)
	if err != nil {
		return
	}
	wa.Write(twinA1)
	wb, err := b.NextWriter(websocket.TextMessage)
	if err != nil {
		return
	}
	wb.Write(twinB)
	wa.Write(twinA2)
	ea := wa.Close()
	eb := wb.Close()
	judge := func(name string, out []byte, e error, want []byte) {
		d, derr := wsref.DecodeStrict(out, wsref.StrictOpts{Sender: wsref.Server, Deflate: true})
		var got []byte
		if derr == nil && len(d.Data()) == 1 {
			got = d.Data()[0].Payload
		}
		x.Check(e == nil && derr == nil && bytes.Equal(got, want), "pool:compressor-shared-between-connections",
			"%s; two fresh connections then wrote one compressed message each, open at the same time: connection %s sent %q (Close: %v, decode: %v), want %q",
			why, name, got, e, derr, want)
	}
	judge("A", na.Out, ea, append(append([]byte{}, twinA1...), twinA2...))
	judge("B", nb.Out, eb, twinB)
}

// twinReadProbe: A and B each receive two compressed messages; A reads its first to EOF and
// opens its second, B opens its first, then both are read to the end alternately.
func twinReadProbe(x *explore.Ctx, why string) {
	mk := func(msgs ...[]byte) []byte {
		var wire []byte
		for _, m := range msgs {
			wire = append(wire, wsref.Encode(wsref.Frame{Fin: true, Rsv1: true, Opcode: wsref.OpText, Payload: wsref.Deflate(m, 6)})...)
		}
		return wire
	}
	wantA := [][]byte{twinA1, twinA2}
	wantB := [][]byte{twinB, twinA1}
	a := websocket.VerifNewConn(netsim.NewConn(mk(wantA...)), false, 0, 0, nil, true)
	b := websocket.VerifNewConn(netsim.NewConn(mk(wantB...)), false, 0, 0, nil, true)
	bad := func(name string, i int, got []byte, err error, want []byte) {
		x.Failf("pool:decompressor-shared-between-connections",
			"%s; two fresh connections then read compressed messages with one open on each at the same time: connection %s message %d read as %q (%v), want %q",
			why, name, i, got, err, want)
	}
	_, r, err := a.NextReader()
	if err != nil {
		return
	}
	got, err := io.ReadAll(r)
	if err != nil || !bytes.Equal(got, wantA[0]) {
		bad("A", 1, got, err, wantA[0])
	}
	_, ra, err := a.NextReader()
	if err != nil {
		bad("A", 2, nil, err, wantA[1])
	}
	_, rb, err := b.NextReader()
	if err != nil {
		bad("B", 1, nil, err, wantB[0])
	}
	var ga, gb []byte
	one := make([]byte, 7)
	for ra != nil || rb != nil {
		if ra != nil {
			n, err := ra.Read(one)
			ga = append(ga, one[:n]...)
			if err != nil {
				if err != io.EOF {
					bad("A", 2, ga, err, wantA[1])
				}
				ra = nil
			}
		}
		if rb != nil {
			n, err := rb.Read(one)
			gb = append(gb, one[:n]...)
			if err != nil {
				if err != io.EOF {
					bad("B", 1, gb, err, wantB[0])
				}
				rb = nil
			}
		}
		if len(ga)+len(gb) > 10000 {
			bad("A/B", 0, nil, fmt.Errorf("no end of message"), nil)
		}
	}
	if !bytes.Equal(ga, wantA[1]) {
		bad("A", 2, ga, nil, wantA[1])
	}
	if !bytes.Equal(gb, wantB[0]) {
		bad("B", 1, gb, nil, wantB[0])
	}
	_, rb, err = b.NextReader()
	if err != nil {
		bad("B", 2, nil, err, wantB[1])
	}
	got, err = io.ReadAll(rb)
	if err != nil || !bytes.Equal(got, wantB[1]) {
		bad("B", 2, got, err, wantB[1])
	}
}

// freshReadProbe: a failed connection must not poison anything shared (pooled decompressors): a
// fresh, healthy connection created afterwards reads two compressed messages flawlessly.
func freshReadProbe(x *explore.Ctx, key string) {
	var wire []byte
	want := [][]byte{twinB, twinA2}
	for _, m := range want {
		wire = append(wire, wsref.Encode(wsref.Frame{Fin: true, Rsv1: true, Opcode: wsref.OpText, Payload: wsref.Deflate(m, 6)})...)
	}
	c := websocket.VerifNewConn(netsim.NewConn(wire), false, 0, 0, nil, true)
	for i, w := range want {
		_, got, err := c.ReadMessage()
		x.Check(err == nil && bytes.Equal(got, w), key, "a fresh connection created after another connection's transport fault: compressed message %d read as %q (%v), want %q", i+1, got, err, w)
	}
}
