#!/bin/bash
# usage: tools/mkmut.sh <name> <file> <python-replace-old> <python-replace-new>
# Creates mutants/<name>.diff from a single textual replacement against /repo HEAD.
set -e
name="$1"; file="$2"
S=$(mktemp -d /tmp/mkmut.XXXXXX); trap 'rm -rf "$S"' EXIT
git -C /repo archive HEAD | tar -x -C "$S"
cd "$S"; git init -q; git add -A; git -c user.email=a@b -c user.name=x commit -qm base
python3 - "$file" "$3" "$4" <<'PY'
import sys
f,old,new=sys.argv[1],sys.argv[2],sys.argv[3]
s=open(f).read()
assert s.count(old)>=1, "pattern not found"
s=s.replace(old,new,1)
open(f,'w').write(s)
PY
git diff > /verif/mutants/$name.diff
echo "wrote mutants/$name.diff ($(wc -l < /verif/mutants/$name.diff) lines)"
