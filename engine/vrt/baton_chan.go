//go:build !race

package vrt

// In the normal flavour the baton is a buffered channel (0.2 µs per hand-off).
type baton struct{ c chan struct{} }

func newBaton() baton { return baton{c: make(chan struct{}, 1)} }
func (b baton) wake() { b.c <- struct{}{} }
func (b baton) park() { <-b.c }
