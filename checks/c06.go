//go:build verif

package checks

import (
	"bytes"
	"fmt"
	"io"
	"runtime"
	"time"

	"github.com/gorilla/websocket"
	"verif.local/engine/explore"
	"verif.local/ref/netsim"
	"verif.local/ref/rawdeflate"
	"verif.local/ref/wsref"
)

func init() {
	Register(&Check{
		ID:        "C06",
		Technique: "explicit-state enumeration over read histories x limits x fragmentations crossing the limit at every frame x 64-bit length claims, on the real reader; the scripted transport withholds the crossing frame's payload",
		Rule:      "cases = {L in 1,2,10,125,126,1000} x {role} x {deflate} x {history: two slots each none|(unfragmented|fragmented) x (read fully|1 byte|abandoned)} x {next message size L-1,L,L+1 or a 64-bit claim, alone or after a partial sum} x {<=4 fragments, every cut composition over a boundary set} x {interleaved ping} x {3 read programs}; all free. non-trivial = next message has >= 1 frame and a non-default choice; distinct by observation hash",
		Assumptions: []string{
			"1009 close is required for lengths <= 2^63-1 whose running sum does not overflow; for top-bit / overflowing sums only ErrReadLimit, no delivery and bounded memory are required",
			"memory is runtime.MemStats.TotalAlloc in a single goroutine (deterministic), not a timing oracle",
		},
		Budget:    map[string]time.Duration{"quick": 100 * time.Second, "thorough": 20 * time.Minute},
		Bound:     map[string]string{"quick": "complete product, <= 3 fragments", "thorough": "complete product, <= 4 fragments (<= 2 for L = 65535/65536, which thorough adds)"},
		Scenarios: c06Scenarios,
	})
}

func c06Scenarios(tier string) []*explore.Scenario {
	var scs []*explore.Scenario
	Ls := []int{1, 2, 10, 125, 126, 1000}
	maxFrags := 3
	if tier == "thorough" {
		Ls = append(Ls, 65535, 65536)
		maxFrags = 4
	}
	for _, L := range Ls {
		for _, readerIsServer := range []bool{true, false} {
			for _, deflate := range []bool{false, true} {
				for h1 := 0; h1 < 7; h1++ {
					L, readerIsServer, deflate, h1 := L, readerIsServer, deflate, h1
					maxFrags := maxFrags
					if L >= 65535 {
						maxFrags = 2 // 64 KiB payloads: the length-form boundary matters, not the composition
					}
					scs = append(scs, &explore.Scenario{
						Name:  fmt.Sprintf("c06/L=%d/reader=%s/deflate=%v/h1=%d", L, roleName(readerIsServer), deflate, h1),
						Bound: 1,
						Body:  func(x *explore.Ctx) { c06Body(x, L, readerIsServer, deflate, h1, maxFrags) },
					})
				}
			}
		}
	}
	for _, readerIsServer := range []bool{true, false} {
		readerIsServer := readerIsServer
		scs = append(scs, &explore.Scenario{Name: fmt.Sprintf("c06/huge-limits/reader=%s", roleName(readerIsServer)), Bound: 0, Body: func(x *explore.Ctx) { c06Huge(x, readerIsServer) }})
	}
	for _, readerIsServer := range []bool{true, false} {
		readerIsServer := readerIsServer
		scs = append(scs, &explore.Scenario{Name: fmt.Sprintf("c06/memory/reader=%s", roleName(readerIsServer)), Bound: 0, Body: func(x *explore.Ctx) { c06Memory(x, readerIsServer) }})
	}
	return scs
}

// exactWire returns a permessage-deflate payload of exactly n wire bytes (n == 1 or n >= 6) and its inflated content.
func exactWire(n int) (wire, app []byte, ok bool) {
	switch {
	case n == 1:
		return []byte{0x00}, []byte{}, true
	case n >= 6 && n-6 <= 65535:
		var w rawdeflate.BitWriter
		app = Pattern(3, n-6)
		w.Stored(app, false)
		return w.MessageTail(), app, true
	}
	return nil, nil, false
}

var c06Claims = []uint64{1 << 31, 1 << 62, 1<<63 - 1, 1 << 63, 1<<64 - 1}

func c06Body(x *explore.Ctx, L int, readerIsServer, deflate bool, h1, maxFrags int) {
	masked := readerIsServer
	mk := maskKeys[3]
	k := func(what string) string {
		return fmt.Sprintf("C06:%s:deflate=%v", what, deflate)
	}
	var frames []wsref.Frame
	type hist struct {
		kind  int // 0 none; 1..6
		total int
		app   []byte
		typ   int
	}
	// ---- history
	hs := []hist{{kind: h1}, {kind: x.Pick(7, "history2")}}
	for i := range hs {
		h := &hs[i]
		if h.kind == 0 {
			continue
		}
		fragmented := (h.kind-1)/3 == 1
		wire := Pattern(0, L)
		h.app = wire
		rsv1 := false
		if deflate {
			if w, a, ok := exactWire(L); ok {
				wire, h.app, rsv1 = w, a, true
			}
		}
		h.typ = websocket.BinaryMessage
		if fragmented {
			a := (len(wire) + 1) / 2
			frames = append(frames, wsref.Frame{Opcode: wsref.OpBinary, Rsv1: rsv1, Masked: masked, Key: mk, Payload: wire[:a]},
				wsref.Frame{Fin: true, Opcode: wsref.OpCont, Masked: masked, Key: mk, Payload: wire[a:]})
		} else {
			frames = append(frames, wsref.Frame{Fin: true, Opcode: wsref.OpBinary, Rsv1: rsv1, Masked: masked, Key: mk, Payload: wire})
		}
	}
	// ---- next message
	sizeSel := x.Pick(3+len(c06Claims)*2, "next-size")
	var claim uint64
	claimAfterPartial := false
	s := 0
	switch {
	case sizeSel < 3:
		s = L - 1 + sizeSel
	default:
		claim = c06Claims[(sizeSel-3)%len(c06Claims)]
		claimAfterPartial = (sizeSel-3)/len(c06Claims) == 1
	}
	var wire, app []byte
	nonMinimal := false
	rsv1 := false
	var cuts []int
	over := false
	crossFrame := -1 // index (within the next message's data frames) of the frame whose header crosses the limit
	var nextFrames []wsref.Frame
	if claim == 0 {
		wire = Pattern(4, s)
		app = wire
		if deflate && x.Pick(2, "next-compressed") == 1 {
			if w, a, ok := exactWire(s); ok {
				wire, app, rsv1 = w, a, true
			}
		}
		nfrags := 1 + x.Pick(maxFrags, "nfrags-1")
		cs := cutSet(len(wire))
		lo := 0
		for i := 0; i < nfrags-1; i++ {
			var opts []int
			for _, c := range cs {
				if c >= lo {
					opts = append(opts, c)
				}
			}
			c := opts[x.Pick(len(opts), fmt.Sprintf("cut%d", i))]
			cuts = append(cuts, c)
			lo = c
		}
		nextFrames = wsref.Fragment(wsref.OpBinary, wire, diffs(cuts), masked, [][4]byte{mk}, rsv1)
		// the peer may (against the RFC, but the reader accepts it) spell small lengths in the
		// 16- or 64-bit form: if the reader accepts such frames the limit must apply to the real length
		switch x.Choose(3, "length-form") {
		case 1:
			for i := range nextFrames {
				if len(nextFrames[i].Payload) <= 65535 { // (a longer payload has no 16-bit form)
					nextFrames[i].LenForm = 16
				}
			}
			nonMinimal = true
		case 2:
			for i := range nextFrames {
				nextFrames[i].LenForm = 64
			}
			nonMinimal = true
		}
		sum := 0
		for i, f := range nextFrames {
			sum += len(f.Payload)
			if sum > L && crossFrame < 0 {
				crossFrame, over = i, true
			}
		}
	} else {
		over = true
		if claimAfterPartial {
			nextFrames = append(nextFrames, wsref.Frame{Opcode: wsref.OpBinary, Masked: masked, Key: mk, Payload: []byte("p")})
		}
		f := wsref.Frame{Fin: true, Opcode: wsref.OpBinary, Masked: masked, Key: mk, LenForm: 64, ClaimLen: claim}
		if claimAfterPartial {
			f.Opcode = wsref.OpCont
		}
		nextFrames = append(nextFrames, f)
		crossFrame = len(nextFrames) - 1
		if L < 1 {
			crossFrame = 0
		}
	}
	// interleaved ping before one of the frames
	pingAt := x.Choose(1+len(nextFrames), "ping-before-frame") - 1
	deliveredBeforeCross := 0
	histFrames := len(frames)
	for i, f := range nextFrames {
		if i == pingAt {
			frames = append(frames, wsref.Frame{Fin: true, Opcode: wsref.OpPing, Masked: masked, Key: mk, Payload: Pattern(0, 125)})
		}
		frames = append(frames, f)
		if over && i < crossFrame {
			deliveredBeforeCross += len(f.Payload)
		}
		if over && i == crossFrame {
			break
		}
	}
	_ = histFrames
	stream := wsref.EncodeAll(frames)
	if over {
		// the transport withholds the crossing frame's payload: the stream ends after its header
		last := frames[len(frames)-1]
		if claim == 0 {
			stream = stream[:len(stream)-len(last.Payload)]
		}
	} else {
		stream = append(stream, wsref.Encode(wsref.Frame{Fin: true, Opcode: wsref.OpText, Masked: masked, Key: mk, Payload: []byte("E")})...)
	}
	nc := netsim.NewConn(stream)
	nc.NoReadLog = true
	if ch := chunkChoices[x.Choose(4, "chunking")]; ch > 0 {
		nc.Chunk = netsim.ChunkFixed(ch)
	}
	c := websocket.VerifNewConn(nc, readerIsServer, 0, 0, nil, deflate)
	// the limit is in force from the start, or raised/lowered to L only after the history was
	// consumed (a limit applies to messages started after it was set)
	limitLate := x.Choose(3, "SetReadLimit-timing")
	switch limitLate {
	case 0:
		c.SetReadLimit(int64(L))
	case 1:
		c.SetReadLimit(int64(L) + 1000)
	case 2: // no limit while the history is read
	}
	x.NonTrivial()
	// ---- consume history
	for i, h := range hs {
		if h.kind == 0 {
			continue
		}
		mode := (h.kind - 1) % 3 // 0 full, 1 one byte, 2 abandoned
		t, r, err := c.NextReader()
		x.Check(err == nil, k("history-rejected"), "history message %d (%d wire bytes, limit %d) was rejected: %v", i, L, L, err)
		switch mode {
		case 0:
			p, err := io.ReadAll(r)
			x.Check(err == nil && bytes.Equal(p, h.app) && t == h.typ, k("history-corrupt"), "history message %d read back wrong (%v)", i, err)
		case 1:
			var b [1]byte
			r.Read(b[:])
		}
	}
	if limitLate != 0 {
		c.SetReadLimit(int64(L))
	}
	// ---- the message under test
	prog := x.Pick(3, "readprog")
	var got []byte
	var err error
	var typ int
	switch prog {
	case 0:
		typ, got, err = c.ReadMessage()
	default:
		var r io.Reader
		typ, r, err = c.NextReader()
		if err == nil {
			buf := make([]byte, []int{0, 1, 4096}[prog])
			for {
				var n int
				n, err = r.Read(buf)
				got = append(got, buf[:n]...)
				if err != nil {
					break
				}
			}
			if err == io.EOF {
				err = nil
			}
		}
	}
	x.Obs("L=%d s=%d claim=%x over=%v cross=%d got=%d err=%v out=%s", L, s, claim, over, crossFrame, len(got), err, short(nc.Out))
	if !over && nonMinimal && err != nil && err != websocket.ErrReadLimit {
		return // a reader may reject non-minimal length encodings as a protocol error
	}
	if !over {
		x.Check(err == nil, k("within-limit-rejected"), "message of %d wire bytes (limit %d, fragments %v, history %d/%d) failed: %v", len(wire), L, cuts, hs[0].kind, hs[1].kind, err)
		x.Check(typ == websocket.BinaryMessage && bytes.Equal(got, app), k("within-limit-corrupt"), "within-limit message delivered %s, want %s", short(got), short(app))
		// and the connection goes on
		t2, p2, err2 := c.ReadMessage()
		x.Check(err2 == nil && t2 == websocket.TextMessage && string(p2) == "E", k("after-within-limit"), "message after a within-limit message: %v %q", err2, p2)
		return
	}
	x.Check(err == websocket.ErrReadLimit, k("over-limit-error"), "message over the limit (L=%d, claim %x, crossing frame %d withheld) ended with %v, want ErrReadLimit", L, claim, crossFrame, err)
	if !rsv1 {
		x.Check(len(got) <= L && len(got) <= deliveredBeforeCross, k("over-limit-delivered"), "%d bytes of an over-limit message were delivered (limit %d, %d precede the crossing frame)", len(got), L, deliveredBeforeCross)
	}
	// wire: pong for the ping (if it preceded), then close 1009
	d, derr := wsref.DecodeStrict(nc.Out, wsref.StrictOpts{Sender: RoleOf(readerIsServer), Deflate: deflate})
	x.Check(derr == nil, k("reply-malformed"), "bytes written by the reader are malformed: %v", derr)
	needClose := claim == 0 || (claim <= 1<<63-1 && !claimAfterPartial) || (claim <= 1<<62 && claimAfterPartial)
	var closes []wsref.Message
	for _, m := range d.Messages {
		if m.Type == wsref.OpClose {
			closes = append(closes, m)
		}
	}
	if needClose {
		x.Check(len(closes) == 1 && len(closes[0].Payload) >= 2 && int(closes[0].Payload[0])<<8|int(closes[0].Payload[1]) == 1009, k("no-1009"), "over-limit message: close frames written %d (payload % x), want one with status 1009", len(closes), firstPayload(closes))
	}
}

// c06Huge: limits near the top of the int64 range (the running size of a fragmented message must
// not wrap around or saturate into "within the limit"): a few real bytes, then a frame whose 64-bit
// length claim (top bit clear) takes the total over the limit; its payload never arrives.
func c06Huge(x *explore.Ctx, readerIsServer bool) {
	masked := readerIsServer
	mk := maskKeys[3]
	limits := []uint64{1 << 31, 1 << 62, 1<<63 - 2, 1<<63 - 1}
	L := limits[x.Pick(len(limits), "limit")]
	parts := [][]int{{1}, {2}, {125}, {1, 1}, {0, 3}, {}}
	part := parts[x.Pick(len(parts), "real-fragments")]
	p := 0
	for _, n := range part {
		p += n
	}
	// claims that cross the limit together with the p bytes already received
	var claims []uint64
	for _, c := range []uint64{L - uint64(p) + 1, L, L + 1, 1<<63 - 1, 1<<63 - 1 - uint64(p), 1 << 62} {
		if c <= 1<<63-1 && c+uint64(p) > L && c+uint64(p) >= c {
			claims = append(claims, c)
		}
	}
	if len(claims) == 0 {
		return
	}
	claim := claims[x.Pick(len(claims), "claim")]
	var frames []wsref.Frame
	for i, n := range part {
		op := byte(wsref.OpCont)
		if i == 0 {
			op = wsref.OpBinary
		}
		frames = append(frames, wsref.Frame{Opcode: op, Masked: masked, Key: mk, Payload: Pattern(4, n)})
	}
	last := wsref.Frame{Fin: x.Pick(2, "claim-frame-final") == 0, Opcode: wsref.OpCont, Masked: masked, Key: mk, LenForm: 64, ClaimLen: claim}
	if len(part) == 0 {
		last.Opcode = wsref.OpBinary
	}
	frames = append(frames, last)
	nc := netsim.NewConn(wsref.EncodeAll(frames))
	if ch := chunkChoices[x.Pick(3, "chunking")]; ch > 0 {
		nc.Chunk = netsim.ChunkFixed(ch)
	}
	c := websocket.VerifNewConn(nc, readerIsServer, 0, 0, nil, false)
	c.SetReadLimit(int64(L))
	x.NonTrivial()
	var got []byte
	var err error
	if x.Pick(2, "readprog") == 0 {
		_, got, err = c.ReadMessage()
	} else {
		var r io.Reader
		_, r, err = c.NextReader()
		if err == nil {
			buf := make([]byte, 7)
			for err == nil {
				var n int
				n, err = r.Read(buf)
				got = append(got, buf[:n]...)
			}
		}
	}
	x.Obs("L=%x real=%v claim=%x got=%d err=%v", L, part, claim, len(got), err)
	k := "C06:huge-limit:"
	x.Check(err == websocket.ErrReadLimit, k+"over-limit-error", "limit %d, %d bytes received in %d fragments, then a frame claiming %d bytes (total over the limit): the read ended with %v, want ErrReadLimit", L, p, len(part), claim, err)
	x.Check(len(got) <= p, k+"over-limit-delivered", "%d bytes delivered, only %d precede the frame that crosses the limit", len(got), p)
	_, _, err2 := c.NextReader()
	x.Check(err2 != nil, k+"not-sticky", "NextReader after ErrReadLimit returned nil")
}

func firstPayload(m []wsref.Message) []byte {
	if len(m) == 0 {
		return nil
	}
	return m[0].Payload
}

func diffs(cuts []int) []int {
	var r []int
	prev := 0
	for _, c := range cuts {
		r = append(r, c-prev)
		prev = c
	}
	return r
}

func c06Memory(x *explore.Ctx, readerIsServer bool) {
	masked := readerIsServer
	li := x.Pick(3, "limit")
	limit := []int64{1000, 0, 1 << 40}[li]
	prog := x.Pick(2, "readprog")
	sent := []int{10, 20000}[x.Pick(2, "bytes-actually-sent")]
	var deltas []uint64
	claims := []uint64{1 << 20, 1 << 40, 1 << 62}
	if li > 0 {
		// the claimed length is within the limit (or there is none): the frame is accepted and
		// whatever was actually sent is delivered; memory must still follow the bytes received
		// (claims are kept below 256 MiB so that a violating tree cannot exhaust the machine)
		claims = []uint64{1 << 16, 1 << 20, 1 << 24, 1 << 27}
		if sent == 10 {
			claims = append([]uint64{513}, claims...)
		}
	}
	for _, claim := range claims {
		f := wsref.Frame{Fin: true, Opcode: wsref.OpBinary, Masked: masked, Key: maskKeys[3], LenForm: 64, ClaimLen: claim, Payload: Pattern(0, sent)}
		stream := wsref.Encode(f)
		var d uint64
		for rep := 0; rep < 2; rep++ { // first repetition warms pools
			nc := netsim.NewConn(stream)
			nc.NoReadLog = true
			var m0, m1 runtime.MemStats
			runtime.GC()
			runtime.ReadMemStats(&m0)
			c := websocket.VerifNewConn(nc, readerIsServer, 0, 0, nil, false)
			c.SetReadLimit(limit)
			if prog == 0 {
				c.ReadMessage()
			} else {
				_, r, err := c.NextReader()
				if err == nil {
					var b [64]byte
					for {
						if _, err := r.Read(b[:]); err != nil {
							break
						}
					}
				}
			}
			runtime.ReadMemStats(&m1)
			d = m1.TotalAlloc - m0.TotalAlloc
		}
		deltas = append(deltas, d)
	}
	x.NonTrivial()
	x.Obs("limit=%d prog=%d ok=%v", limit, prog, true)
	x.Logf("deltas %v", deltas)
	mn, mx := deltas[0], deltas[0]
	for _, d := range deltas {
		if d < mn {
			mn = d
		}
		if d > mx {
			mx = d
		}
	}
	x.Check(mx-mn < 16<<10 && mx < uint64(64<<10+8*sent), "C06:memory-depends-on-claimed-length", "bytes allocated while receiving frames claiming %v bytes (%d actually sent each, read limit %d): %v", claims, sent, limit, deltas)
}
