// Package vrt is the controlled scheduler ("virtual runtime"): threads are real goroutines,
// exactly one runs at a time, and a scheduling decision is taken at every point immediately
// before an operation on shared state (channel send/receive/select, mutex lock, once, pool
// get/put, transport operations, timers).  Decisions are delegated to the explorer.
//
// Outside a managed execution (Active == nil) every shim falls through to the real primitive.
package vrt

import (
	"fmt"
	"reflect"
	"runtime"
	"sync"
	"time"
)

type thread struct {
	id      int
	name    string
	bt      baton
	done    bool
	started bool
	wait    Waitable // pending operation (nil: running)
	what    string
	fn      func()
	steps   int
	exiting bool
	timerAt time.Duration // threads spawned by a timer (AfterFunc): when it fired
	isTimer bool
}

// Sched is one managed execution.
type Sched struct {
	threads  []*thread
	cur      *thread
	Choose   func(n int, label string, free bool) int
	timers   []*Timer
	clock    time.Duration // virtual time since Base
	Deadlock string        // set when no thread was enabled but some were unfinished
	poison   bool
	mainBt   baton
	Trace    []string
	Verbose  bool
	Switches int
	MaxSteps int
	Overrun  bool
	finished int
	OnIdle   func() bool // optional environment action when nothing is enabled: returns true if it changed something
	// OnBlocked, when set, is told about every thread found disabled at a scheduling decision
	OnBlocked func(thread, what string, clock, nextTimer time.Duration)
	// join is a real synchronisation at the very end of the execution (thread exit -> Run
	// returning): it lets the caller read what the threads recorded without that being a race,
	// and cannot hide a race between threads because nothing runs after it.
	join sync.WaitGroup
	// closed records the channels closed through Close (a receive from a closed channel never blocks)
	// (a fixed array scanned by //go:norace code: a map would be accessed through instrumented runtime code)
	closed  [64]uintptr
	nclosed int
}

// AdvanceTo moves the virtual clock forward and fires every timer that is due.
//
//go:norace
func (s *Sched) AdvanceTo(d time.Duration) {
	if d > s.clock {
		s.clock = d
	}
	for _, t := range s.timers {
		if t.pending && t.at <= s.clock {
			t.fire()
		}
	}
}

// Clock returns the virtual time offset.
//
//go:norace
func (s *Sched) Clock() time.Duration { return s.clock }

// Active is the scheduler of the execution in progress (nil: shims fall through).
var Active *Sched

// Base is the virtual epoch.
var Base = time.Date(2030, 1, 1, 0, 0, 0, 0, time.UTC)

// New creates a scheduler.
func New(choose func(n int, label string, free bool) int) *Sched {
	return &Sched{Choose: choose, mainBt: newBaton(), MaxSteps: 200000}
}

// Go registers a thread (before Run).
func (s *Sched) Go(name string, fn func()) {
	t := &thread{id: len(s.threads), name: name, bt: newBaton(), fn: fn}
	t.wait = Always
	t.what = "start"
	s.threads = append(s.threads, t)
}

// Now returns the virtual time.
//
//go:norace
func (s *Sched) Now() time.Time { return Base.Add(s.clock) }

// Run executes all threads under the scheduler and returns when all have finished, a
// deadlock was detected, or the step budget was exceeded.
//
//go:norace
func (s *Sched) Run() {
	if Active != nil {
		panic("vrt: nested managed execution")
	}
	Active = s
	for _, t := range s.threads {
		t := t
		s.join.Add(1)
		go s.threadMain(t)
	}
	s.dispatch(nil)
	s.mainBt.park()
	s.join.Wait()
	Active = nil
}

//go:norace
func (s *Sched) threadMain(t *thread) {
	t.bt.park()
	defer s.join.Done()
	defer s.threadExit(t)
	if s.poison {
		return
	}
	t.started = true
	t.wait = nil
	t.fn()
}

// threadExit runs when a thread ends (normally, by Goexit during tear-down, or by a panic).
//
//go:norace
func (s *Sched) threadExit(t *thread) {
	r := recover()
	t.done = true
	s.finished++
	if r != nil {
		s.Deadlock = fmt.Sprintf("PANIC in thread %s: %v", t.name, r)
		s.poisonAll()
	}
	if s.poison {
		s.tearDownNext()
		return
	}
	s.dispatch(nil)
}

// Waitable tells whether a pending operation can complete without blocking.  Ready is
// evaluated by whichever thread takes the scheduling decision, so implementations must be
// //go:norace methods on plain data (no closures: a closure body is instrumented and reading
// its captured variables from another thread would be reported as a race of the harness).
type Waitable interface{ Ready() bool }

type always struct{}

func (always) Ready() bool { return true }

// Always is the Waitable of operations that never block.
var Always Waitable = always{}

// Point is a scheduling point of the running thread: what describes the pending operation,
// w tells whether it can complete without blocking (nil: always).
//
//go:norace
func (s *Sched) Point(what string, w Waitable) {
	if s.poison {
		return
	}
	t := s.cur
	if t == nil {
		return
	}
	t.steps++
	if t.steps > s.MaxSteps {
		s.Overrun = true
		s.Deadlock = "step budget exceeded by thread " + t.name
		s.poisonAll()
		runtime.Goexit()
	}
	if w == nil {
		w = Always
	}
	t.wait, t.what = w, what
	s.dispatch(t)
	if s.poison {
		runtime.Goexit()
	}
	t.wait = nil
}

// dispatch takes one scheduling decision; from is the thread calling (nil: main or a
// finished thread).  It returns when from has been chosen to continue.
//
//go:norace
func (s *Sched) dispatch(from *thread) {
	for {
		var opts []*thread
		curEnabled := false
		if from != nil && !from.done && from.wait != nil && from.wait.Ready() {
			opts = append(opts, from)
			curEnabled = true
		}
		alive := 0
		for _, t := range s.threads {
			if t.done {
				continue
			}
			alive++
			if t == from {
				continue
			}
			if t.wait != nil && t.wait.Ready() {
				opts = append(opts, t)
			} else if s.OnBlocked != nil && t.wait != nil {
				nt := time.Duration(-1)
				if tm := s.nextTimer(); tm != nil {
					nt = tm.at
				}
				// a timer whose function (AfterFunc) has not finished yet still counts as pending
				for _, tt := range s.threads {
					if tt.isTimer && !tt.done && (nt < 0 || tt.timerAt < nt) {
						nt = tt.timerAt
					}
				}
				s.OnBlocked(t.name, t.what, s.clock, nt)
			}
		}
		if alive == 0 {
			s.cur = nil
			s.mainBt.wake()
			return
		}
		nThreads := len(opts)
		timerOpt := s.nextTimer() != nil
		n := nThreads
		if timerOpt {
			n++
		}
		if n == 0 {
			if s.OnIdle != nil && s.OnIdle() {
				continue
			}
			// deadlock
			var w []string
			for _, t := range s.threads {
				if !t.done {
					w = append(w, t.name+" waiting for "+t.what)
				}
			}
			s.Deadlock = fmt.Sprintf("deadlock: %v", w)
			s.poisonAll()
			if from != nil {
				runtime.Goexit()
			}
			s.tearDownNext()
			return
		}
		c := 0
		if n > 1 {
			label := "sched"
			if from != nil {
				label = "sched@" + from.name + ":" + from.what
			}
			c = s.Choose(n, label, !curEnabled)
		}
		if c >= nThreads {
			// environment action: advance the clock to the next pending timer
			tm := s.nextTimer()
			s.clock = tm.at
			tm.fire()
			if s.Verbose {
				s.Trace = append(s.Trace, fmt.Sprintf("env: clock -> +%v, timer fires", s.clock))
			}
			continue
		}
		next := opts[c]
		if s.Verbose {
			s.Trace = append(s.Trace, fmt.Sprintf("run %s: %s", next.name, next.what))
		}
		if next == from {
			return
		}
		s.Switches++
		s.cur = next
		next.bt.wake()
		if from != nil && !from.done {
			from.bt.park()
		}
		return
	}
}

//go:norace
func (s *Sched) poisonAll() { s.poison = true }

// tearDownNext wakes the next unfinished thread in poison mode (threads end through Goexit,
// shims no longer block); when none is left the main goroutine is released.
//
//go:norace
func (s *Sched) tearDownNext() {
	for _, t := range s.threads {
		if !t.done && !t.exiting {
			t.exiting = true
			s.cur = t
			t.bt.wake()
			return
		}
	}
	s.cur = nil
	s.mainBt.wake()
}

// Poisoned reports whether the execution is being torn down.
//
//go:norace
func (s *Sched) Poisoned() bool { return s.poison }

// CurName returns the running thread's name.
//
//go:norace
func (s *Sched) CurName() string {
	if s.cur == nil {
		return "main"
	}
	return s.cur.name
}

// CurID returns the running thread's id (-1: none).
//
//go:norace
func (s *Sched) CurID() int {
	if s.cur == nil {
		return -1
	}
	return s.cur.id
}

// ---------------------------------------------------------------------------------------
// channel shims

// chanWait is the Waitable of a channel operation.
type chanWait struct {
	ch   any
	send bool
}

//go:norace
func (c *chanWait) Ready() bool {
	v := reflect.ValueOf(c.ch)
	if s := Active; s != nil && s.isClosed(v.Pointer()) {
		return true // receive: returns the zero value; send: panics, as it would without the scheduler
	}
	if c.send {
		return v.Len() < v.Cap()
	}
	return v.Len() > 0
}

// Close is `close(ch)`: it never blocks; the channel is remembered as closed so that receives
// from it are known to be enabled.
//
//go:norace
func Close[T any](ch chan T) {
	if s := Active; s != nil && s.nclosed < len(s.closed) {
		s.closed[s.nclosed] = reflect.ValueOf(ch).Pointer()
		s.nclosed++
	}
	close(ch)
}

//go:norace
func (s *Sched) isClosed(p uintptr) bool {
	for i := 0; i < s.nclosed; i++ {
		if s.closed[i] == p {
			return true
		}
	}
	return false
}

// Recv is `<-ch`.
//
//go:norace
func Recv[T any](ch <-chan T) T {
	if s := Active; s != nil && s.cur != nil {
		s.Point("recv", &chanWait{ch: ch})
		if s.poison {
			select {
			case v := <-ch:
				return v
			default:
				var z T
				return z
			}
		}
	}
	return <-ch
}

// Send is `ch <- v`.
//
//go:norace
func Send[T any](ch chan<- T, v T) {
	if s := Active; s != nil && s.cur != nil {
		s.Point("send", &chanWait{ch: ch, send: true})
		if s.poison {
			select {
			case ch <- v:
			default:
			}
			return
		}
	}
	ch <- v
}

// Case is one select case.
type Case struct{ w chanWait }

// R is a receive case.
//
//go:norace
func R[T any](ch <-chan T) Case { return Case{chanWait{ch: ch}} }

// S is a send case.
//
//go:norace
func S[T any](ch chan<- T) Case { return Case{chanWait{ch: ch, send: true}} }

type selWait struct {
	cases      []Case
	hasDefault bool
}

//go:norace
func (w *selWait) Ready() bool {
	if w.hasDefault {
		return true
	}
	for i := range w.cases {
		if w.cases[i].w.Ready() {
			return true
		}
	}
	return false
}

// Select decides which case of a select statement is taken: it returns the index of a ready
// case, or -1 for the default clause.  The caller re-issues the real operation, which cannot
// block.  Outside a managed execution it returns -2: the caller runs the original select.
//
//go:norace
func Select(hasDefault bool, cases ...Case) int {
	s := Active
	if s == nil || s.cur == nil {
		return -2
	}
	s.Point("select", &selWait{cases: cases, hasDefault: hasDefault})
	if s.poison {
		return -2
	}
	var ready []int
	for i := range cases {
		if cases[i].w.Ready() {
			ready = append(ready, i)
		}
	}
	switch len(ready) {
	case 0:
		return -1
	case 1:
		return ready[0]
	}
	// Go picks among ready cases at random: the explorer decides (free)
	return ready[s.Choose(len(ready), "select-case", true)]
}

// ---------------------------------------------------------------------------------------
// timers

// Timer is the virtual counterpart of time.Timer.
type Timer struct {
	C       chan time.Time
	at      time.Duration
	pending bool
	s       *Sched
	real    *time.Timer
	fn      func() // AfterFunc: runs as a thread of its own when the timer fires
}

//go:norace
func (s *Sched) nextTimer() *Timer {
	var best *Timer
	for _, t := range s.timers {
		if t.pending && (best == nil || t.at < best.at) {
			best = t
		}
	}
	return best
}

//go:norace
func (t *Timer) fire() {
	t.pending = false
	if t.fn != nil {
		// time.AfterFunc runs the function in its own goroutine: here a new scheduler thread,
		// enabled from now on
		s := t.s
		th := &thread{id: len(s.threads), name: fmt.Sprintf("timer%d", len(s.threads)), bt: newBaton(), fn: t.fn, isTimer: true, timerAt: t.at}
		th.wait = Always
		th.what = "start"
		s.threads = append(s.threads, th)
		s.join.Add(1)
		go s.threadMain(th)
		return
	}
	select {
	case t.C <- Base.Add(t.at):
	default:
	}
}

// NewTimer is time.NewTimer.
//
//go:norace
func NewTimer(d time.Duration) *Timer {
	s := Active
	if s == nil || s.cur == nil {
		rt := time.NewTimer(d)
		t := &Timer{C: make(chan time.Time, 1), real: rt}
		go func() {
			v, ok := <-rt.C
			if ok {
				t.C <- v
			}
		}()
		return t
	}
	t := &Timer{C: make(chan time.Time, 1), at: s.clock + d, pending: true, s: s}
	s.timers = append(s.timers, t)
	return t
}

// AfterFunc is time.AfterFunc.
//
//go:norace
func AfterFunc(d time.Duration, f func()) *Timer {
	s := Active
	if s == nil || s.cur == nil {
		return &Timer{real: time.AfterFunc(d, f)}
	}
	t := &Timer{at: s.clock + d, pending: true, s: s, fn: f}
	s.timers = append(s.timers, t)
	return t
}

// Stop is (*time.Timer).Stop.
//
//go:norace
func (t *Timer) Stop() bool {
	if t.real != nil {
		return t.real.Stop()
	}
	was := t.pending
	t.pending = false
	return was
}

// Now is time.Now.
//
//go:norace
func Now() time.Time {
	if s := Active; s != nil && s.cur != nil {
		return s.Now()
	}
	return time.Now()
}

// Until is time.Until.
//
//go:norace
func Until(t time.Time) time.Duration {
	if s := Active; s != nil && s.cur != nil {
		return t.Sub(s.Now())
	}
	return time.Until(t)
}
