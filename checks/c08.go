//go:build verif

package checks

import (
	"bytes"
	"errors"
	"fmt"
	"io"
	"strings"
	"time"

	"github.com/gorilla/websocket"
	"verif.local/engine/explore"
	"verif.local/ref/netsim"
	"verif.local/ref/rawdeflate"
	"verif.local/ref/wsref"
)

func init() {
	Register(&Check{
		ID:        "C08",
		Technique: "deviation-bounded exhaustive exploration of conformant streams with control frames at every position (independent encoder) on the real reader; complete enumeration of all acceptable close codes x reason classes; default-handler replies decoded by the independent strict decoder",
		Rule:      "families: order (control frames of 0/1/124/125 bytes at every slot of <=3-fragment messages, handlers checked for once/in-order/payload/position against delivered bytes), default-replies (ping->pong, close->echo, CloseError), closecodes (all of 1000-1003,1007-1011,3000-4999 x 4 reason classes x role), handler-error (each handler kind failing at each control frame). non-trivial = >=1 control frame consumed and a non-default choice; distinct by observation hash",
		Assumptions: []string{
			"ordering is judged at byte granularity for uncompressed messages and at message granularity for compressed ones (the inflater legitimately reads ahead inside a message)",
		},
		Budget:    map[string]time.Duration{"quick": 100 * time.Second, "thorough": 20 * time.Minute},
		Bound:     map[string]string{"quick": "deviations <= 2, <= 3 control frames per message, <= 2 messages", "thorough": "deviations <= 3, <= 3 messages, <= 4 fragments"},
		Scenarios: c08Scenarios,
	})
}

var c08CtlKinds = []ctlKind{{wsref.OpPing, 0}, {wsref.OpPong, 0}, {wsref.OpPing, 1}, {wsref.OpPing, 124}, {wsref.OpPing, 125}, {wsref.OpPong, 125}, {wsref.OpPong, 1}, {wsref.OpPong, 124}}

func c08Codes() []int {
	var r []int
	for c := 1000; c <= 1003; c++ {
		r = append(r, c)
	}
	for c := 1007; c <= 1011; c++ {
		r = append(r, c)
	}
	for c := 3000; c <= 4999; c++ {
		r = append(r, c)
	}
	return r
}

var c08Reasons = []string{"", "x", strings.Repeat("r", 123), strings.Repeat("r", 121) + "\xc3\xa9"}

func c08Scenarios(tier string) []*explore.Scenario {
	var scs []*explore.Scenario
	bound, maxFrags := 2, 3
	if tier == "thorough" {
		bound, maxFrags = 3, 4
	}
	eks := []encKind{{name: "plain", raw: -1}, {name: "flate1", raw: -1, level: 1, comp: true}, {name: "raw-bfinal", raw: 3, comp: true}}
	for _, readerIsServer := range []bool{true, false} {
		for _, ek := range eks {
			for _, si := range []int{0, 1, 3, 6} {
				readerIsServer, ek, si := readerIsServer, ek, si
				scs = append(scs, &explore.Scenario{
					Name:  fmt.Sprintf("c08/order/reader=%s/enc=%s/size=%d", roleName(readerIsServer), ek.name, c03Sizes[si]),
					Bound: bound,
					Body: func(x *explore.Ctx) {
						g := &genStream{quick: tier == "quick", ctlKinds: c08CtlKinds, maxCtl: 3}
						g.addMessage(x, "m0.", readerIsServer, ek, si, maxFrags, x.Pick, false)
						if x.Choose(2, "m1.more") == 1 {
							g.addMessage(x, "m1.", readerIsServer, ek, (3+x.Choose(len(c03Sizes), "m1.size"))%len(c03Sizes), maxFrags, x.Choose, false)
						}
						readStream(x, "C08", g, wsref.EncodeAll(g.frames), readerIsServer, ek.comp, false)
					},
				})
			}
		}
		readerIsServer := readerIsServer
		scs = append(scs, &explore.Scenario{Name: fmt.Sprintf("c08/closecodes/reader=%s", roleName(readerIsServer)), Bound: 1, Body: func(x *explore.Ctx) { c08Close(x, readerIsServer, true) }})
		for _, deflate := range []bool{false, true} {
			deflate := deflate
			scs = append(scs, &explore.Scenario{Name: fmt.Sprintf("c08/default-replies/reader=%s/deflate=%v", roleName(readerIsServer), deflate), Bound: bound + 1, Body: func(x *explore.Ctx) { c08CloseD(x, readerIsServer, false, deflate) }})
			scs = append(scs, &explore.Scenario{Name: fmt.Sprintf("c08/handler-error/reader=%s/deflate=%v", roleName(readerIsServer), deflate), Bound: bound, Body: func(x *explore.Ctx) { c08HandlerErrD(x, readerIsServer, deflate) }})
		}
	}
	return scs
}

var c08Codes_ = c08Codes()

// c08Close: [pings, optional fragmented message with a ping inside] then a close frame; default handlers.
func c08Close(x *explore.Ctx, readerIsServer, allCodes bool) {
	c08CloseD(x, readerIsServer, allCodes, false)
}

// twoPart returns a data message as two frame payloads; with deflate the message is compressed
// and the cut sits exactly on a DEFLATE block boundary (after a sync flush), so that the first
// fragment alone inflates cleanly.
func twoPart(deflate bool, a, b string) (p1, p2 []byte) {
	if !deflate {
		return []byte(a), []byte(b)
	}
	var w rawdeflate.BitWriter
	w.Fixed([]byte(a), false)
	w.SyncFlush()
	cut := len(w.Buf)
	w.Fixed([]byte(b), false)
	all := w.MessageTail()
	return all[:cut], all[cut:]
}

func c08CloseD(x *explore.Ctx, readerIsServer, allCodes, deflate bool) {
	masked := readerIsServer
	key := maskKeys[3]
	k := func(what string) string { return fmt.Sprintf("C08:%s:reader=%s", what, roleName(readerIsServer)) }
	var frames []wsref.Frame
	var wantPongs [][]byte
	var wantMsgs []wsref.Message
	ping := func(p []byte) {
		frames = append(frames, wsref.Frame{Fin: true, Opcode: wsref.OpPing, Masked: masked, Key: key, Payload: p})
		wantPongs = append(wantPongs, p)
	}
	var code int
	var reason string
	empty := false
	if allCodes {
		code = c08Codes_[x.Pick(len(c08Codes_), "code")]
		reason = c08Reasons[x.Pick(len(c08Reasons), "reason")]
	} else {
		switch x.Choose(3, "closebody") {
		case 0:
			code, reason = 1000, "bye"
		case 1:
			empty = true
		case 2:
			code, reason = 4999, c08Reasons[3]
		}
	}
	// prefix
	npings := x.Choose(3, "pings-before")
	for i := 0; i < npings; i++ {
		// (payloads of consecutive pings differ in every byte: a reply built from the previous
		// ping's bytes must not go unnoticed)
		ping(Pattern(i%2*2, []int{0, 125, 1, 124}[x.Choose(4, fmt.Sprintf("ping%d-len", i))]))
	}
	inFrag := false
	switch x.Choose(4, "data") {
	case 1: // complete message
		frames = append(frames, wsref.Frame{Fin: true, Opcode: wsref.OpText, Masked: masked, Key: key, Payload: []byte("hello")})
		wantMsgs = append(wantMsgs, wsref.Message{Type: 1, Payload: []byte("hello")})
	case 2: // fragmented with ping inside
		p1, p2 := twoPart(deflate, "ab", "cd")
		frames = append(frames, wsref.Frame{Opcode: wsref.OpBinary, Rsv1: deflate, Masked: masked, Key: key, Payload: p1})
		ping([]byte("mid"))
		frames = append(frames, wsref.Frame{Fin: true, Opcode: wsref.OpCont, Masked: masked, Key: key, Payload: p2})
		wantMsgs = append(wantMsgs, wsref.Message{Type: 2, Payload: []byte("abcd")})
	case 3: // close arrives inside a fragmented message
		p1, _ := twoPart(deflate, "ab", "cd")
		frames = append(frames, wsref.Frame{Opcode: wsref.OpBinary, Rsv1: deflate, Masked: masked, Key: key, Payload: p1})
		inFrag = true
	}
	body := []byte{}
	if !empty {
		body = wsref.CloseBody(code, reason)
	}
	frames = append(frames, wsref.Frame{Fin: true, Opcode: wsref.OpClose, Masked: masked, Key: key, Payload: body})
	// things after the close must be ignored
	if x.Choose(2, "frames-after-close") == 1 {
		frames = append(frames, wsref.Frame{Fin: true, Opcode: wsref.OpPing, Masked: masked, Key: key, Payload: []byte("late")},
			wsref.Frame{Fin: true, Opcode: wsref.OpText, Masked: masked, Key: key, Payload: []byte("late")})
	}
	nc := netsim.NewConn(wsref.EncodeAll(frames))
	if ch := chunkChoices[x.Choose(4, "chunking")]; ch > 0 {
		nc.Chunk = netsim.ChunkFixed(ch)
	}
	c := websocket.VerifNewConn(nc, readerIsServer, 0, 0, nil, deflate)
	if x.Choose(2, "custom-handlers-then-reset-to-default") == 1 {
		// installing custom handlers and then passing nil restores the default behaviour
		c.SetPingHandler(func(string) error { return errors.New("custom ping handler still installed") })
		c.SetCloseHandler(func(int, string) error { return errors.New("custom close handler still installed") })
		c.SetPongHandler(func(string) error { return errors.New("custom pong handler still installed") })
		c.SetPingHandler(nil)
		c.SetCloseHandler(nil)
		c.SetPongHandler(nil)
	}
	rr := ReadAllMessages(c, x.Choose(2, "readprog"), 3, 6)
	x.NonTrivial()
	x.Obs("delivered=%s err=%v out=%s", fmtMsgs(rr.Msgs), rr.Err, short(nc.Out))
	if inFrag {
		x.Check(len(rr.Msgs) == 0, k("partial-delivered"), "message interrupted by a close frame was delivered as complete: %s", fmtMsgs(rr.Msgs))
	} else {
		x.Check(msgsEqual(rr.Msgs, wantMsgs), k("delivery"), "delivered %s, want %s", fmtMsgs(rr.Msgs), fmtMsgs(wantMsgs))
	}
	wantCode, wantText := code, reason
	if empty {
		wantCode, wantText = 1005, ""
	}
	var ce *websocket.CloseError
	x.Check(errors.As(rr.Err, &ce), k("closeerror-type"), "read error after a close frame is %T %v, want *CloseError", rr.Err, rr.Err)
	x.Check(ce.Code == wantCode && ce.Text == wantText, k("closeerror-value"), "CloseError{%d,%.20q}, frame carried {%d,%.20q}", ce.Code, ce.Text, wantCode, wantText)
	for i := 0; i < 3; i++ {
		_, r, err := c.NextReader()
		x.Check(r == nil && SameErr(err, rr.Err), k("closeerror-sticky"), "read #%d after the close returned %v, want the same error %v", i+1, err, rr.Err)
	}
	d, err := wsref.DecodeStrict(nc.Out, wsref.StrictOpts{Sender: RoleOf(readerIsServer)})
	x.Check(err == nil, k("reply-malformed"), "replies written by default handlers are malformed: %v", err)
	x.Check(len(d.Messages) == len(wantPongs)+1, k("reply-count"), "default handlers wrote %d frames, want %d pongs + 1 close", len(d.Messages), len(wantPongs))
	for i, p := range wantPongs {
		m := d.Messages[i]
		x.Check(m.Type == wsref.OpPong && bytes.Equal(m.Payload, p), k("pong-payload"), "reply %d is op %d payload %s, want pong with the ping's payload %s", i, m.Type, short(m.Payload), short(p))
	}
	cl := d.Messages[len(wantPongs)]
	x.Check(cl.Type == wsref.OpClose, k("close-echo-missing"), "last reply is op %d, want close", cl.Type)
	if empty {
		x.Check(len(cl.Payload) == 0, k("close-echo-code"), "echo of a body-less close has payload % x", cl.Payload)
	} else {
		x.Check(len(cl.Payload) >= 2 && int(cl.Payload[0])<<8|int(cl.Payload[1]) == code, k("close-echo-code"), "close echo payload % x, want status %d", cl.Payload, code)
	}
}

type hErr struct{ s string }

func (e *hErr) Error() string { return e.s }

func c08HandlerErr(x *explore.Ctx, readerIsServer bool) { c08HandlerErrD(x, readerIsServer, false) }

func c08HandlerErrD(x *explore.Ctx, readerIsServer, deflate bool) {
	masked := readerIsServer
	key := maskKeys[0]
	k := func(what string) string { return fmt.Sprintf("C08:%s:reader=%s", what, roleName(readerIsServer)) }
	// stream: msg A, ping, pong, frag1, ping, frag2(fin), close
	fr := func(op byte, fin bool, p string) wsref.Frame {
		return wsref.Frame{Fin: fin, Opcode: op, Masked: masked, Key: key, Payload: []byte(p)}
	}
	b1, b2 := twoPart(deflate, "b1", "b2")
	fb1 := fr(2, false, string(b1))
	fb1.Rsv1 = deflate
	frames := []wsref.Frame{fr(1, true, "A"), fr(9, true, "p1"), fr(10, true, "q1"), fb1, fr(9, true, "p2"), fr(0, true, string(b2)), fr(10, true, "q2"), fr(1, true, "C"), fr(8, true, string(wsref.CloseBody(1000, "x")))}
	ctlIdx := []int{1, 2, 4, 6, 8}
	failAt := x.Pick(len(ctlIdx), "failing-control-frame")
	nc := netsim.NewConn(wsref.EncodeAll(frames))
	if ch := chunkChoices[x.Choose(4, "chunking")]; ch > 0 {
		nc.Chunk = netsim.ChunkFixed(ch)
	}
	c := websocket.VerifNewConn(nc, readerIsServer, 0, 0, nil, deflate)
	// whatever value the handler returns (the library's own sentinel errors included: a handler that
	// answers with WriteControl returns ErrCloseSent once the application has sent a close).  io.EOF is
	// left out: inside a message reader it means "end of message", and the library reports a bare EOF
	// from below as an unexpected-EOF close error on purpose.
	errs := []error{&hErr{"handler says no"}, websocket.ErrCloseSent, io.ErrUnexpectedEOF, websocket.ErrReadLimit, &websocket.CloseError{Code: 1000, Text: "from handler"}, websocket.ErrBadHandshake}
	E := errs[x.Pick(len(errs), "handler-error-value")]
	seen := 0
	var calls []string
	h := func(kind string) func(string) error {
		return func(s string) error {
			calls = append(calls, kind+":"+s)
			seen++
			if seen-1 == failAt {
				return E
			}
			return nil
		}
	}
	c.SetPingHandler(h("ping"))
	c.SetPongHandler(h("pong"))
	c.SetCloseHandler(func(code int, s string) error { return h("close")(fmt.Sprint(code, s)) })
	rr := ReadAllMessages(c, x.Choose(2, "readprog"), 1+x.Choose(2, "readsize"), 8)
	x.NonTrivial()
	x.Obs("failAt=%d delivered=%s err=%v calls=%v", failAt, fmtMsgs(rr.Msgs), rr.Err, calls)
	x.Check(rr.Err == error(E), k("handler-error-returned"), "handler returned %v but the read call returned %v", E, rr.Err)
	x.Check(len(calls) == failAt+1, k("handler-after-error"), "handlers called %d times, want %d (nothing after the failing one): %v", len(calls), failAt+1, calls)
	wantMsgs := [][]wsref.Message{{{Type: 1, Payload: []byte("A")}}, {{Type: 1, Payload: []byte("A")}}, {{Type: 1, Payload: []byte("A")}}, {{Type: 1, Payload: []byte("A")}, {Type: 2, Payload: []byte("b1b2")}}, {{Type: 1, Payload: []byte("A")}, {Type: 2, Payload: []byte("b1b2")}, {Type: 1, Payload: []byte("C")}}}[failAt]
	x.Check(msgsEqual(rr.Msgs, wantMsgs), k("handler-error-delivery"), "delivered %s, want %s", fmtMsgs(rr.Msgs), fmtMsgs(wantMsgs))
	for i := 0; i < 3; i++ {
		_, r, err := c.NextReader()
		x.Check(r == nil && err == error(E), k("handler-error-permanent"), "read #%d after the handler error returned %v, want %v", i+1, err, E)
	}
	x.Check(len(calls) == failAt+1, k("handler-after-error"), "handlers called after the error became permanent: %v", calls)
}
