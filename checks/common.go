//go:build verif

// Package checks holds one harness per property.
package checks

import (
	"fmt"
	"io"
	"reflect"
	"time"
	"unsafe"

	"github.com/gorilla/websocket"
	"verif.local/engine/explore"
	"verif.local/engine/vrt"
	"verif.local/ref/netsim"
	"verif.local/ref/wsref"
)

// Check describes one registered property check.
type Check struct {
	ID          string
	Technique   string
	Rule        string
	Assumptions []string
	Scenarios   func(tier string) []*explore.Scenario
	Budget      map[string]time.Duration // per tier
	Serial      bool                     // run in one worker (global hooks)
	Flavour     string                   // "plain" (default) or "sched"
	Bound       map[string]string        // human description of the bound per tier
}

var Registry = map[string]*Check{}

func Register(c *Check) { Registry[c.ID] = c }

// Pattern returns n payload bytes of the given pattern kind.
func Pattern(kind, n int) []byte {
	b := make([]byte, n)
	switch kind {
	case 0:
		for i := range b {
			b[i] = byte(i % 251)
		}
	case 1: // zeros
	case 2:
		for i := range b {
			b[i] = 0xff
		}
	case 3:
		s := uint32(12345)
		for i := range b {
			s = s*1664525 + 1013904223
			b[i] = byte(s >> 24)
		}
	case 4: // ASCII ramp
		for i := range b {
			b[i] = byte('a' + i%26)
		}
	}
	return b
}

const NPatterns = 5

// SameErr: identical interface value, or same dynamic type with DeepEqual contents.
func SameErr(a, b error) bool {
	if a == nil || b == nil {
		return a == nil && b == nil
	}
	ta, tb := reflect.TypeOf(a), reflect.TypeOf(b)
	if ta != tb {
		return false
	}
	if ta.Comparable() && a == b {
		return true
	}
	return reflect.DeepEqual(a, b)
}

// RoleOf maps the library's isServer flag of the *writing* Conn to the wsref sender role.
func RoleOf(isServer bool) wsref.Role {
	if isServer {
		return wsref.Server
	}
	return wsref.Client
}

func roleName(isServer bool) string {
	if isServer {
		return "server"
	}
	return "client"
}

// HandlerLog records control frames seen by handlers.
type HandlerLog struct {
	Events []string
}

// Install sets recording handlers that then run the library's default behaviour.
func (h *HandlerLog) Install(c *websocket.Conn) {
	dp, dc := c.PingHandler(), c.CloseHandler()
	c.SetPingHandler(func(s string) error { h.Events = append(h.Events, "ping:"+s); return dp(s) })
	c.SetPongHandler(func(s string) error { h.Events = append(h.Events, "pong:"+s); return nil })
	c.SetCloseHandler(func(code int, s string) error {
		h.Events = append(h.Events, fmt.Sprintf("close:%d:%s", code, s))
		return dc(code, s)
	})
}

// ReadResult is what a read program delivered.
type ReadResult struct {
	Msgs     []wsref.Message // complete messages (Type, Payload)
	Part     []byte          // bytes of a message that ended in an error
	PartT    int
	Err      error
	FromNext bool // the error was returned by NextReader (connection-level)
}

// ReadAllMessages runs a read program until the first error.
// prog 0: ReadMessage; prog 1: NextReader + Read(bufsize); prog 2/3: every message abandoned.
func ReadAllMessages(c *websocket.Conn, prog, bufsize, max int) ReadResult {
	var rr ReadResult
	for i := 0; i < max; i++ {
		switch prog {
		case 0:
			t, p, err := c.ReadMessage()
			if err != nil {
				rr.Err, rr.Part, rr.PartT = err, p, t
				rr.FromNext = t == -1
				return rr
			}
			rr.Msgs = append(rr.Msgs, wsref.Message{Type: t, Payload: p})
		case 2, 3:
			// abandon every message: right after NextReader (2) or after reading one byte (3);
			// Msgs then lists the messages that were started (type only)
			t, r, err := c.NextReader()
			if err != nil {
				rr.Err = err
				rr.FromNext = true
				return rr
			}
			if prog == 3 {
				var one [1]byte
				if _, err := r.Read(one[:]); err != nil && err != io.EOF {
					rr.Err, rr.PartT = err, t
					return rr
				}
			}
			rr.Msgs = append(rr.Msgs, wsref.Message{Type: t})
		default:
			t, r, err := c.NextReader()
			if err != nil {
				rr.Err = err
				rr.FromNext = true
				return rr
			}
			var all []byte
			buf := make([]byte, bufsize)
			for steps := 0; ; steps++ {
				n, err := r.Read(buf)
				all = append(all, buf[:n]...)
				if err == io.EOF {
					break
				}
				if err != nil {
					rr.Err, rr.Part, rr.PartT = err, all, t
					return rr
				}
				if steps > 10_000_000 {
					panic("read program: no progress")
				}
			}
			rr.Msgs = append(rr.Msgs, wsref.Message{Type: t, Payload: all})
		}
	}
	return rr
}

func short(b []byte) string {
	if len(b) <= 24 {
		return fmt.Sprintf("%x", b)
	}
	return fmt.Sprintf("%x..(%d)", b[:24], len(b))
}

// detMask is the deterministic mask-key source installed for every execution (the checks own
// all nondeterminism; C02 installs its recording source on top and separately asserts that
// the package's own source is crypto/rand.Reader).
type detMask struct{ pos int }

//go:norace
func (m *detMask) Read(p []byte) (int, error) {
	for i := range p {
		p[i] = maskStreamByte(m.pos + i + 1000)
	}
	m.pos += len(p)
	return len(p), nil
}

var theDetMask = &detMask{}
var maskRandWasCrypto bool

func init() {
	_ = netsim.OK
	maskRandWasCrypto = websocket.VerifMaskRandIsCryptoRand()
	websocket.VerifSetMaskRand(theDetMask)
	explore.OnExecStart = func() {
		theDetMask.pos = 0
		if vrt.Active == nil {
			websocket.VerifResetPools()
		}
	}
}

func addrOf(b []byte) uintptr { return uintptr(unsafe.Pointer(&b[0])) }
