//go:build verif

package checks

import (
	"encoding/json"
	"os"
	"testing"

	"verif.local/engine/explore"
)

// TestReplay re-executes the violation recorded in $VERIF_REPLAY_FILE as a plain unit test
// (no exploration: the recorded choice sequence is the whole input).  `./run replaytest <file>`
// builds it with the same overlay as the checks.  It fails iff the violation reproduces.
func TestReplay(t *testing.T) {
	path := os.Getenv("VERIF_REPLAY_FILE")
	if path == "" {
		t.Skip("VERIF_REPLAY_FILE not set")
	}
	b, err := os.ReadFile(path)
	if err != nil {
		t.Fatal(err)
	}
	var rf struct {
		Property string           `json:"property"`
		Tier     string           `json:"tier"`
		Failure  *explore.Failure `json:"failure"`
	}
	if err := json.Unmarshal(b, &rf); err != nil || rf.Failure == nil {
		t.Fatalf("bad replay file: %v", err)
	}
	c := Registry[rf.Property]
	if c == nil {
		t.Fatalf("unknown property %q", rf.Property)
	}
	for _, tier := range []string{rf.Tier, "quick", "thorough"} {
		for _, sc := range c.Scenarios(tier) {
			if sc.Name != rf.Failure.Scenario {
				continue
			}
			if sc.Flavour != "" {
				t.Skipf("scenario %s needs the %s build flavour: use ./run replay", sc.Name, sc.Flavour)
			}
			x := explore.Replay(sc, rf.Failure.Choices)
			for _, l := range x.Log() {
				t.Log(l)
			}
			if f := x.Failure(); f != nil {
				t.Fatalf("VIOLATION property=%s key=%s: %s", rf.Property, f.Key, f.Msg)
			}
			return
		}
	}
	t.Fatalf("scenario %q not found", rf.Failure.Scenario)
}
