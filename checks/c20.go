//go:build verif

package checks

import (
	"bytes"
	"fmt"
	"io"
	"os"
	"strings"
	"time"

	"github.com/gorilla/websocket"
	"verif.local/engine/explore"
	"verif.local/engine/vrt"
	"verif.local/ref/netsim"
	"verif.local/ref/wsref"
)

func init() {
	Register(&Check{
		ID:          "C20",
		Technique:   "exhaustive exploration of write programs x transport fault positions x invalid requests on a real Conn with an instrumented, poisoning BufferPool; Get/Put log judged against the message life cycle",
		Rule:        "same program/fault space as C10 with the pool forced on; the pool logs every Get/Put stamped with the API call and transport op in progress, hands the most recently returned buffer to the next taker and fills returned buffers with 0xDD. non-trivial = at least one Get and a non-default choice; distinct by observation hash",
		Assumptions: []string{"sharing: 2-3 connections with one pool under the controlled scheduler (plain and -race builds), Get/Put are scheduling points, preemption-bounded", "races = those ThreadSanitizer reports on explored schedules"},
		Flavour:     "mixed",
		Budget:      map[string]time.Duration{"quick": 100 * time.Second, "thorough": 40 * time.Minute},
		Bound:       map[string]string{"quick": "deviations <= 2 (a fault is one deviation), <= 2 messages", "thorough": "deviations <= 2 over the whole product (3 messages, all boundary sizes), <= 3 on a sub-lattice (B in {125,300}, every fourth size)"},
		Scenarios: func(tier string) []*explore.Scenario {
			return append(wScenarios("c20", tier, c20Body), c20ShareScenarios(tier)...)
		},
	})
}

func startsMessage(name string) bool {
	n := strings.TrimPrefix(strings.TrimPrefix(strings.TrimPrefix(name, "invalid:"), "epilogue:"), "late:")
	return strings.HasPrefix(n, "NextWriter") || strings.HasPrefix(n, "WriteMessage") || strings.HasPrefix(n, "WriteJSON")
}

func usesNoPooledBuffer(name string) bool {
	n := strings.TrimPrefix(strings.TrimPrefix(name, "invalid:"), "epilogue:")
	return strings.HasPrefix(n, "WriteControl") || strings.HasPrefix(n, "WritePreparedMessage") || strings.HasPrefix(n, "NewPreparedMessage")
}

func c20Oracle(x *explore.Ctx, e *WEnv, fs *faultState, key func(string) string) {
	p := e.Pool
	if p == nil {
		panic("c20: no pool")
	}
	x.Obs("pool events %d", len(p.Events))
	// 1. (Get Put)* with the same buffer, never two Puts in a row
	out := 0
	lastGet := 0
	for i, ev := range p.Events {
		switch ev.Op {
		case "get":
			x.Check(out == 0, key("double-get"), "pool event %d: Get while a buffer is already checked out", i)
			out++
			lastGet = ev.Buf
			name := "?"
			if ev.Call < len(e.Calls) {
				name = e.Calls[ev.Call].Name
			}
			x.Check(ev.Call < len(e.Calls) && startsMessage(name), key("get-outside-message-start"), "pool event %d: Get during %q, which does not start a message", i, name)
		case "put":
			x.Check(out == 1, key("double-put"), "pool event %d: Put without a matching Get", i)
			out--
			if lastGet != 0 {
				x.Check(ev.Buf == lastGet, key("put-other-buffer"), "pool event %d: Put returns buffer #%d, the connection had taken #%d", i, ev.Buf, lastGet)
			}
		}
	}
	// 2. after every API call: outstanding == 1 iff a message writer is open
	outAfter := func(callIdx int) int {
		n := 0
		for _, ev := range p.Events {
			if ev.Call <= callIdx {
				if ev.Op == "get" {
					n++
				} else {
					n--
				}
			}
		}
		return n
	}
	open := false
	for ci, ac := range e.Calls {
		n := strings.TrimPrefix(strings.TrimPrefix(ac.Name, "invalid:"), "epilogue:")
		switch {
		case usesNoPooledBuffer(n):
		case strings.HasPrefix(n, "NextWriter("):
			open = ac.Err == nil
		case strings.HasPrefix(n, "Write(") || strings.HasPrefix(n, "WriteString(") || strings.HasPrefix(n, "io.Copy("):
			// (a failing source reader is not a write failure: the writer stays open)
			open = open && (ac.Err == nil || ac.Err == errSrc)
		default:
			open = false
		}
		want := 0
		if open {
			want = 1
		}
		got := outAfter(ci)
		x.Check(got == want, key("held-between-messages"), "after call %d (%s -> %v): %d pool buffers checked out, want %d", ci, ac.Name, ac.Err, got, want)
	}
	// 3. every transport Write of a message writer happens while exactly one buffer is checked out
	for ci, ac := range e.Calls {
		if usesNoPooledBuffer(ac.Name) {
			continue
		}
		for oi := ac.Op0; oi < ac.Op1; oi++ {
			if e.NC.Ops[oi].Kind != netsim.OpWrite {
				continue
			}
			n := 0
			for _, ev := range p.Events {
				if ev.OpIdx <= oi {
					if ev.Op == "get" {
						n++
					} else {
						n--
					}
				}
			}
			x.Check(n == 1, key("write-without-buffer"), "call %d (%s): transport Write (op %d) issued while %d pool buffers are checked out: the frame buffer is not owned", ci, ac.Name, oi, n)
		}
	}
	_ = fmt.Sprint
}

// ---------------------------------------------------------------------------------------
// sharing one pool among connections, all interleavings

func c20ShareScenarios(tier string) []*explore.Scenario {
	var scs []*explore.Scenario
	for _, flavour := range []string{"sched", "race"} {
		if flavour == "race" && os.Getenv("VERIF_NO_RACE") != "" {
			continue
		}
		for _, nconn := range []int{2, 3} {
			for _, deflate := range []bool{false, true} {
				flavour, nconn, deflate := flavour, nconn, deflate
				b := 2
				if tier == "thorough" {
					b = 3
				}
				if flavour == "race" {
					b--
				}
				scs = append(scs, &explore.Scenario{Name: fmt.Sprintf("c20/%s/share/conns=%d/deflate=%v", flavour, nconn, deflate), Bound: b, Flavour: flavour,
					Body: func(x *explore.Ctx) { c20Share(x, nconn, deflate) }})
			}
		}
	}
	return scs
}

type sharePool struct {
	LogPool
	s *vrt.Sched
}

//go:norace
func (p *sharePool) Get() interface{} {
	p.s.Point("pool.Get", nil)
	p.Who = p.s.CurName()
	v := p.LogPool.Get()
	return v
}

//go:norace
func (p *sharePool) Put(v interface{}) {
	p.s.Point("pool.Put", nil)
	p.Who = p.s.CurName()
	p.LogPool.Put(v)
}

func c20Share(x *explore.Ctx, nconn int, deflate bool) {
	s, l := newSchedOpt(x, nconn <= 2)
	pool := &sharePool{s: s}
	pool.ids = map[*byte]int{}
	pool.Out = map[int]string{}
	type cs struct {
		nc   *netsim.Conn
		c    *websocket.Conn
		sent [][]byte
		errs []error
	}
	conns := make([]*cs, nconn)
	for i := range conns {
		i := i
		nc := netsim.NewConn(nil)
		hookTransport(l, nc, fmt.Sprintf("c%d", i))
		c := websocket.VerifNewConn(nc, i%2 == 0, 0, 125, pool, deflate)
		me := &cs{nc: nc, c: c}
		conns[i] = me
		p1 := bytes.Repeat([]byte{byte('A' + i)}, 200)
		p2 := bytes.Repeat([]byte{byte('a' + i)}, 30)
		me.sent = [][]byte{p1, p2}
		me.errs = make([]error, 2)
		s.Go(fmt.Sprintf("T%d", i), func() {
			me.errs[0] = l.call("NextWriter+Write(200)+Close", func() error {
				w, err := c.NextWriter(websocket.BinaryMessage)
				if err != nil {
					return err
				}
				if _, err := w.Write(p1); err != nil {
					return err
				}
				return w.Close()
			})
			me.errs[1] = l.call("WriteMessage(30)", func() error { return c.WriteMessage(websocket.BinaryMessage, p2) })
		})
	}
	s.Run()
	for _, t := range s.Trace {
		x.Logf("schedule: %s", t)
	}
	x.NonTrivial()
	key := func(what string) string { return fmt.Sprintf("C20:share-%s:deflate=%v", what, deflate) }
	x.Obs("events=%d switches=%d", len(pool.Events), s.Switches)
	x.Check(s.Deadlock == "", key("deadlock"), "%s", s.Deadlock)
	x.Check(pool.Problem == "", key("double-put"), "%s", pool.Problem)
	for i, me := range conns {
		for j, e := range me.errs {
			x.Check(e == nil, key("write-failed"), "connection %d message %d: %v", i, j, e)
		}
		d, err := wsref.DecodeStrict(me.nc.Out, wsref.StrictOpts{Sender: RoleOf(i%2 == 0), Deflate: deflate})
		x.Check(err == nil, key("corrupted-frames"), "connection %d: wire malformed (another connection's buffer?): %v", i, err)
		data := d.Data()
		x.Check(len(data) == 2, key("corrupted-frames"), "connection %d: %d messages on the wire", i, len(data))
		for j := range data {
			x.Check(bytes.Equal(data[j].Payload, me.sent[j]), key("corrupted-payload"), "connection %d message %d: wire payload %s, written %s - a pooled buffer was touched after release or while another connection held it", i, j, short(data[j].Payload), short(me.sent[j]))
		}
		// per connection: (Get Put)* and nothing held at the end
		out, last := 0, 0
		for _, ev := range pool.Events {
			if ev.Conn != fmt.Sprintf("T%d", i) {
				continue
			}
			if ev.Op == "get" {
				x.Check(out == 0, key("double-get"), "connection %d took a second buffer while holding one", i)
				out++
				last = ev.Buf
			} else {
				x.Check(out == 1, key("put-without-get"), "connection %d returned a buffer it did not hold", i)
				out--
				if last != 0 {
					x.Check(ev.Buf == last, key("put-other-buffer"), "connection %d returned buffer #%d, it had taken #%d", i, ev.Buf, last)
				}
			}
		}
		x.Check(out == 0, key("held-at-end"), "connection %d still holds a pool buffer after its messages ended", i)
	}
	_ = io.EOF
}
