//go:build verif

package checks

import (
	"bytes"
	"fmt"
	"io"
	"time"

	"github.com/gorilla/websocket"
	"verif.local/engine/explore"
	"verif.local/ref/wsref"
)

func init() {
	Register(&Check{
		ID:        "C02",
		Technique: "deviation-bounded exhaustive exploration of write programs on a real Conn; every byte handed to the transport is judged by an independent strict RFC 6455/7692 decoder; mask keys traced to a recording source",
		Rule:      "same write-program space as C01 (core product complete, other dimensions deviation-bounded) plus WriteControl with every payload length 0..125; non-trivial = at least one frame written and a non-default choice taken; distinct = distinct observation hash (API results + wire digest)",
		Assumptions: []string{
			"cryptographic quality of crypto/rand is assumed; what is checked is that the package's source IS crypto/rand.Reader and that every client frame's key is a fresh 4-byte window drawn during the call that built the frame",
			"ref/wsref strict decoder written from RFC 6455 §5 / RFC 7692 §7; compress/flate inflater trusted",
		},
		Serial:    false,
		Budget:    map[string]time.Duration{"quick": 100 * time.Second, "thorough": 40 * time.Minute},
		Bound:     map[string]string{"quick": "deviations <= 2, <= 2 messages", "thorough": "deviations <= 2 over the whole product with full value sets, <= 3 on a sub-lattice (B in {125,300}, every fourth size)"},
		Scenarios: c02Scenarios,
	})
}

func c02Scenarios(tier string) []*explore.Scenario {
	scs := wScenarios("c02", tier, c02Body)
	for _, server := range []bool{true, false} {
		server := server
		scs = append(scs, &explore.Scenario{Name: fmt.Sprintf("c02/writecontrol-all-lengths/writer=%s", roleName(server)), Bound: 0, Body: func(x *explore.Ctx) {
			c02ControlLengths(x, server)
		}})
	}
	// the 7/16/64-bit length-form boundaries through every API that builds a frame on its own
	for _, server := range []bool{true, false} {
		server := server
		scs = append(scs, &explore.Scenario{Name: fmt.Sprintf("c02/length-forms/writer=%s", roleName(server)), Bound: 0, Body: func(x *explore.Ctx) { c02LengthForms(x, server) }})
	}
	// control payloads above 125 bytes through the message APIs (WriteControl refuses them by itself): whatever the
	// call returns, no frame on the wire may be a control frame with more than 125 payload bytes
	for _, server := range []bool{true, false} {
		server := server
		scs = append(scs, &explore.Scenario{Name: fmt.Sprintf("c02/oversized-control-through-message-apis/writer=%s", roleName(server)), Bound: 0, Body: func(x *explore.Ctx) { c02OversizedControl(x, server) }})
	}
	return scs
}

func c02OversizedControl(x *explore.Ctx, server bool) {
	mask := &MaskRec{}
	restore := websocket.VerifSetMaskRand(mask)
	defer restore()
	b := []int{1, 16, 100, 125, 126, 300, 0}[x.Pick(7, "WriteBufferSize")]
	comp := x.Pick(2, "deflate") == 1
	e := NewWEnv(x, WConfig{Server: server, B: b, Compress: comp}, false)
	n := []int{126, 127, 130, 200, 1000, 5000}[x.Pick(6, "len")]
	mt := []int{websocket.PingMessage, websocket.PongMessage, websocket.CloseMessage}[x.Pick(3, "type")]
	p := Pattern(4, n)
	if mt == websocket.CloseMessage {
		p = append(wsref.CloseBody(1000, ""), p[2:]...)
	}
	var err error
	api := x.Pick(3, "api(WriteMessage|NextWriter+Write+Close|NextWriter+two Writes+Close)")
	switch api {
	case 0:
		err = e.C.WriteMessage(mt, p)
	default:
		var w io.WriteCloser
		if w, err = e.C.NextWriter(mt); err == nil {
			if api == 1 {
				_, err = w.Write(p)
			} else {
				if _, err = w.Write(p[:n/2]); err == nil {
					_, err = w.Write(p[n/2:])
				}
			}
			if cerr := w.Close(); err == nil {
				err = cerr
			}
		}
	}
	x.NonTrivial()
	d, derr := wsref.DecodeStrict(e.NC.Out, wsref.StrictOpts{Sender: RoleOf(server), Deflate: comp})
	x.Obs("B=%d n=%d type=%d api=%d -> err=%v wire=%d bytes %d frames decode=%v", b, n, mt, api, err != nil, len(e.NC.Out), len(d.Frames), derr)
	x.Check(derr == nil, fmt.Sprintf("C02:malformed:oversized-control:writer=%s:deflate=%v", roleName(server), comp),
		"a %d-byte control message (type %d) through api %d with WriteBufferSize %d returned %v and left bytes on the wire that are not well-formed: %v", n, mt, api, b, err, derr)
}

func c02LengthForms(x *explore.Ctx, server bool) {
	mask := &MaskRec{}
	restore := websocket.VerifSetMaskRand(mask)
	defer restore()
	n := []int{124, 125, 126, 127, 65534, 65535, 65536, 65537}[x.Pick(8, "size")]
	b := []int{0, 70000}[x.Pick(2, "WriteBufferSize")]
	e := NewWEnv(x, WConfig{Server: server, B: b}, false)
	e.Mask = mask
	prog := []int{PWriteMessage, PNextWriterAll, PPrepared, PReadFrom, PSplitString}[x.Pick(5, "api")]
	e.WriteMessageProg(prog, websocket.BinaryMessage, n, 0, func(int, string) int { return 0 }, func(int, string) int { return 0 }, nil)
	judgeWire(x, e, "C02")
}

func c02Body(x *explore.Ctx, cfg WConfig, prog int, tier string) {
	x.Check(maskRandWasCrypto, "C02:maskrand-not-crypto", "the package's mask key source is not crypto/rand.Reader")
	mask := &MaskRec{}
	restore := websocket.VerifSetMaskRand(mask)
	defer restore()
	e := writePhase(x, cfg, prog, tier, mask, nil)
	judgeWire(x, e, "C02")
}

func c02ControlLengths(x *explore.Ctx, server bool) {
	mask := &MaskRec{}
	restore := websocket.VerifSetMaskRand(mask)
	defer restore()
	e := NewWEnv(x, WConfig{Server: server, B: 16}, false)
	e.Mask = mask
	n := x.Pick(126, "len")
	mt := []int{websocket.PingMessage, websocket.PongMessage, websocket.CloseMessage}[x.Pick(3, "type")]
	p := Pattern(4, n)
	if mt == websocket.CloseMessage && n >= 2 {
		p = append(wsref.CloseBody(1000, ""), p[2:]...)
	} else if mt == websocket.CloseMessage && n == 1 {
		return // a 1-byte close body is not a valid message
	}
	e.Control(0, mt, p)
	judgeWire(x, e, "C02")
}

// judgeWire decodes everything the writer handed to the transport with the strict
// reference decoder and compares it with the API-level messages.
func judgeWire(x *explore.Ctx, e *WEnv, id string) {
	x.NonTrivial()
	cfg := e.Cfg
	key := func(what string) string {
		return fmt.Sprintf("%s:%s:writer=%s:deflate=%v", id, what, roleName(cfg.Server), cfg.Compress)
	}
	d, err := wsref.DecodeStrict(e.NC.Out, wsref.StrictOpts{Sender: RoleOf(cfg.Server), Deflate: cfg.Compress})
	x.Obs("wire: %d bytes, %d frames, err=%v", len(e.NC.Out), len(d.Frames), err)
	x.Check(err == nil, key("malformed"), "bytes on the wire are not well-formed: %v", err)
	x.Check(len(d.Messages) == len(e.Sent), key("message-count"), "%d messages on the wire, %d API-level messages", len(d.Messages), len(e.Sent))
	for i, m := range d.Messages {
		s := e.Sent[i]
		x.Check(m.Type == s.Type, key("type"), "wire message %d has opcode %d, API message type %d", i, m.Type, s.Type)
		x.Check(bytes.Equal(m.Payload, s.Payload), key("payload"), "wire message %d decodes to %s (%d bytes), application wrote %s (%d bytes)", i, short(m.Payload), len(m.Payload), short(s.Payload), len(s.Payload))
		if m.Compressed {
			x.Check(s.Compress, key("rsv1-unrequested"), "wire message %d has RSV1 but write compression was not negotiated+enabled for it", i)
		}
	}
	// every transport Write belongs to exactly one API call; frames are attributed to the
	// call during which their first byte was written
	if e.Mask != nil {
		used := map[int]bool{}
		off := 0
		wi := 0
		wend := 0
		if len(e.NC.Writes) > 0 {
			wend = len(e.NC.Writes[0])
		}
		for fi, f := range d.Frames {
			for wi < len(e.NC.Writes) && f.Off >= wend {
				wi++
				if wi < len(e.NC.Writes) {
					off = wend
					wend += len(e.NC.Writes[wi])
				}
			}
			_ = off
			// which API call issued write wi?
			epoch := -1
			for ci, ac := range e.Calls {
				if wi >= ac.W0 && wi < ac.W1 {
					epoch = ci
				}
			}
			if !f.Masked {
				continue
			}
			o := e.Mask.FindWindow(f.Key, epoch, used)
			if o < 0 && e.Sent != nil {
				// prepared messages are rendered inside WritePreparedMessage: same epoch rule
			}
			x.Check(o >= 0, key("maskkey-not-fresh"), "frame %d: masking key % x is not an unused 4-byte window handed out by the random source up to the API call that wrote the frame (call %d)", fi, f.Key, epoch)
			used[o], used[o+1], used[o+2], used[o+3] = true, true, true, true
		}
		if cfg.Server {
			x.Check(len(e.Mask.Reads) == 0, key("server-draws-mask"), "server connection drew %d times from the mask source", len(e.Mask.Reads))
		}
	}
}
