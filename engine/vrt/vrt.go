// Package vrt is the controlled scheduler ("virtual runtime"): threads are real goroutines,
// exactly one runs at a time, and a scheduling decision is taken at every point immediately
// before an operation on shared state (channel send/receive/select, mutex lock, once, pool
// get/put, transport operations, timers).  Decisions are delegated to the explorer.
//
// Outside a managed execution (Active == nil) every shim falls through to the real primitive.
package vrt

import (
	"fmt"
	"runtime"
	"time"
)

type thread struct {
	id      int
	name    string
	bt      baton
	done    bool
	started bool
	enabled func() bool
	what    string
	fn      func()
	steps   int
	exiting bool
}

// Sched is one managed execution.
type Sched struct {
	threads  []*thread
	cur      *thread
	Choose   func(n int, label string, free bool) int
	timers   []*Timer
	clock    time.Duration // virtual time since Base
	Deadlock string        // set when no thread was enabled but some were unfinished
	poison   bool
	mainBt   baton
	Trace    []string
	Verbose  bool
	Switches int
	MaxSteps int
	Overrun  bool
	finished int
	OnIdle   func() bool // optional environment action when nothing is enabled: returns true if it changed something
}

// Active is the scheduler of the execution in progress (nil: shims fall through).
var Active *Sched

// Base is the virtual epoch.
var Base = time.Date(2030, 1, 1, 0, 0, 0, 0, time.UTC)

// New creates a scheduler.
func New(choose func(n int, label string, free bool) int) *Sched {
	return &Sched{Choose: choose, mainBt: newBaton(), MaxSteps: 200000}
}

// Go registers a thread (before Run).
func (s *Sched) Go(name string, fn func()) {
	t := &thread{id: len(s.threads), name: name, bt: newBaton(), fn: fn}
	t.enabled = func() bool { return true }
	t.what = "start"
	s.threads = append(s.threads, t)
}

// Now returns the virtual time.
//
//go:norace
func (s *Sched) Now() time.Time { return Base.Add(s.clock) }

// Run executes all threads under the scheduler and returns when all have finished, a
// deadlock was detected, or the step budget was exceeded.
//
//go:norace
func (s *Sched) Run() {
	if Active != nil {
		panic("vrt: nested managed execution")
	}
	Active = s
	for _, t := range s.threads {
		t := t
		go s.threadMain(t)
	}
	s.dispatch(nil)
	s.mainBt.park()
	Active = nil
}

//go:norace
func (s *Sched) threadMain(t *thread) {
	t.bt.park()
	defer func() {
		// the thread ends (normally, by Goexit during tear-down, or by a panic)
		r := recover()
		t.done = true
		s.finished++
		if r != nil {
			s.Deadlock = fmt.Sprintf("PANIC in thread %s: %v", t.name, r)
			s.poisonAll()
		}
		if s.poison {
			s.tearDownNext()
			return
		}
		s.dispatch(nil)
	}()
	if s.poison {
		return
	}
	t.started = true
	t.enabled = nil
	t.fn()
}

func alwaysEnabled() bool { return true }

// Point is a scheduling point of the running thread: what describes the pending operation,
// enabled tells whether it can complete without blocking.
//
//go:norace
func (s *Sched) Point(what string, enabled func() bool) {
	if s.poison {
		return
	}
	t := s.cur
	if t == nil {
		return
	}
	t.steps++
	if t.steps > s.MaxSteps {
		s.Overrun = true
		s.Deadlock = "step budget exceeded by thread " + t.name
		s.poisonAll()
		runtime.Goexit()
	}
	if enabled == nil {
		enabled = alwaysEnabled
	}
	t.enabled, t.what = enabled, what
	s.dispatch(t)
	if s.poison {
		runtime.Goexit()
	}
	t.enabled = nil
}

// dispatch takes one scheduling decision; from is the thread calling (nil: main or a
// finished thread).  It returns when from has been chosen to continue.
//
//go:norace
func (s *Sched) dispatch(from *thread) {
	for {
		var opts []*thread
		curEnabled := false
		if from != nil && !from.done && from.enabled != nil && from.enabled() {
			opts = append(opts, from)
			curEnabled = true
		}
		alive := 0
		for _, t := range s.threads {
			if t.done {
				continue
			}
			alive++
			if t == from {
				continue
			}
			if t.enabled != nil && t.enabled() {
				opts = append(opts, t)
			}
		}
		if alive == 0 {
			s.cur = nil
			s.mainBt.wake()
			return
		}
		nThreads := len(opts)
		timerOpt := s.nextTimer() != nil
		n := nThreads
		if timerOpt {
			n++
		}
		if n == 0 {
			if s.OnIdle != nil && s.OnIdle() {
				continue
			}
			// deadlock
			var w []string
			for _, t := range s.threads {
				if !t.done {
					w = append(w, t.name+" waiting for "+t.what)
				}
			}
			s.Deadlock = fmt.Sprintf("deadlock: %v", w)
			s.poisonAll()
			if from != nil {
				runtime.Goexit()
			}
			s.tearDownNext()
			return
		}
		c := 0
		if n > 1 {
			label := "sched"
			if from != nil {
				label = "sched@" + from.name + ":" + from.what
			}
			c = s.Choose(n, label, !curEnabled)
		}
		if c >= nThreads {
			// environment action: advance the clock to the next pending timer
			tm := s.nextTimer()
			s.clock = tm.at
			tm.fire()
			if s.Verbose {
				s.Trace = append(s.Trace, fmt.Sprintf("env: clock -> +%v, timer fires", s.clock))
			}
			continue
		}
		next := opts[c]
		if s.Verbose {
			s.Trace = append(s.Trace, fmt.Sprintf("run %s: %s", next.name, next.what))
		}
		if next == from {
			return
		}
		s.Switches++
		s.cur = next
		next.bt.wake()
		if from != nil && !from.done {
			from.bt.park()
		}
		return
	}
}

//go:norace
func (s *Sched) poisonAll() { s.poison = true }

// tearDownNext wakes the next unfinished thread in poison mode (threads end through Goexit,
// shims no longer block); when none is left the main goroutine is released.
//
//go:norace
func (s *Sched) tearDownNext() {
	for _, t := range s.threads {
		if !t.done && !t.exiting {
			t.exiting = true
			s.cur = t
			t.bt.wake()
			return
		}
	}
	s.cur = nil
	s.mainBt.wake()
}

// Poisoned reports whether the execution is being torn down.
//
//go:norace
func (s *Sched) Poisoned() bool { return s.poison }

// CurName returns the running thread's name.
//
//go:norace
func (s *Sched) CurName() string {
	if s.cur == nil {
		return "main"
	}
	return s.cur.name
}

// CurID returns the running thread's id (-1: none).
//
//go:norace
func (s *Sched) CurID() int {
	if s.cur == nil {
		return -1
	}
	return s.cur.id
}

// ---------------------------------------------------------------------------------------
// channel shims

// Recv is `<-ch`.
//
//go:norace
func Recv[T any](ch <-chan T) T {
	if s := Active; s != nil && s.cur != nil {
		s.Point("recv", func() bool { return len(ch) > 0 })
		if s.poison {
			select {
			case v := <-ch:
				return v
			default:
				var z T
				return z
			}
		}
	}
	return <-ch
}

// Send is `ch <- v`.
//
//go:norace
func Send[T any](ch chan<- T, v T) {
	if s := Active; s != nil && s.cur != nil {
		s.Point("send", func() bool { return len(ch) < cap(ch) })
		if s.poison {
			select {
			case ch <- v:
			default:
			}
			return
		}
	}
	ch <- v
}

// Case is one select case.
type Case struct {
	ready func() bool
}

// R is a receive case.
func R[T any](ch <-chan T) Case { return Case{ready: func() bool { return len(ch) > 0 }} }

// S is a send case.
func S[T any](ch chan<- T) Case { return Case{ready: func() bool { return len(ch) < cap(ch) }} }

// Select decides which case of a select statement is taken: it returns the index of a ready
// case, or -1 for the default clause.  The caller re-issues the real operation, which cannot
// block.  Outside a managed execution it returns -2: the caller runs the original select.
//
//go:norace
func Select(hasDefault bool, cases ...Case) int {
	s := Active
	if s == nil || s.cur == nil {
		return -2
	}
	anyReady := func() bool {
		for _, c := range cases {
			if c.ready() {
				return true
			}
		}
		return false
	}
	s.Point("select", func() bool { return hasDefault || anyReady() })
	if s.poison {
		return -2
	}
	var ready []int
	for i, c := range cases {
		if c.ready() {
			ready = append(ready, i)
		}
	}
	switch len(ready) {
	case 0:
		return -1
	case 1:
		return ready[0]
	}
	// Go picks among ready cases at random: the explorer decides (free)
	return ready[s.Choose(len(ready), "select-case", true)]
}

// ---------------------------------------------------------------------------------------
// timers

// Timer is the virtual counterpart of time.Timer.
type Timer struct {
	C       chan time.Time
	at      time.Duration
	pending bool
	s       *Sched
	real    *time.Timer
}

//go:norace
func (s *Sched) nextTimer() *Timer {
	var best *Timer
	for _, t := range s.timers {
		if t.pending && (best == nil || t.at < best.at) {
			best = t
		}
	}
	return best
}

//go:norace
func (t *Timer) fire() {
	t.pending = false
	select {
	case t.C <- Base.Add(t.at):
	default:
	}
}

// NewTimer is time.NewTimer.
//
//go:norace
func NewTimer(d time.Duration) *Timer {
	s := Active
	if s == nil || s.cur == nil {
		rt := time.NewTimer(d)
		t := &Timer{C: make(chan time.Time, 1), real: rt}
		go func() {
			v, ok := <-rt.C
			if ok {
				t.C <- v
			}
		}()
		return t
	}
	t := &Timer{C: make(chan time.Time, 1), at: s.clock + d, pending: true, s: s}
	s.timers = append(s.timers, t)
	return t
}

// Stop is (*time.Timer).Stop.
//
//go:norace
func (t *Timer) Stop() bool {
	if t.real != nil {
		return t.real.Stop()
	}
	was := t.pending
	t.pending = false
	return was
}

// Now is time.Now.
//
//go:norace
func Now() time.Time {
	if s := Active; s != nil && s.cur != nil {
		return s.Now()
	}
	return time.Now()
}

// Until is time.Until.
//
//go:norace
func Until(t time.Time) time.Duration {
	if s := Active; s != nil && s.cur != nil {
		return t.Sub(s.Now())
	}
	return time.Until(t)
}
