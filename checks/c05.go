//go:build verif

package checks

import (
	"bytes"
	"fmt"
	"io"
	"time"

	"github.com/gorilla/websocket"
	"verif.local/engine/explore"
	"verif.local/ref/netsim"
	"verif.local/ref/wsref"
)

func init() {
	Register(&Check{
		ID:        "C05",
		Technique: "fault enumeration inside the explorer: every cut offset of valid streams x every way an io.Reader may report the end x chunking x read program, on the real reader; oracle computes which messages had completely arrived",
		Rule:      "cases = {stream shapes} x {reader role} x {read buffer} x {every cut offset 0..len} x {fault kinds: (0,EOF), (n,EOF), (0,err), (n,err), (0,timeout), (n,timeout)} x {chunkings} x {app read sizes} x {ReadMessage, NextReader+Read}; all free (complete product). non-trivial = cut > 0; distinct by observation hash",
		Assumptions: []string{
			"a message that completes inside the very transport read that also reports the fault may be reported either way (don't-care)",
			"later calls are issued 5 (quick) / 998 (thorough) times - below the documented 1000-call panic",
		},
		Budget:    map[string]time.Duration{"quick": 100 * time.Second, "thorough": 20 * time.Minute},
		Bound:     map[string]string{"quick": "complete product over 7 stream shapes, read buffers {125, 4096}", "thorough": "complete product over 10 stream shapes, read buffers {125,256,4096}, 998 repeated calls"},
		Scenarios: c05Scenarios,
	})
}

type c05Shape struct {
	name    string
	deflate bool
	build   func(masked bool) []wsref.Frame
	sparse  bool // large frames: cut offsets only around frame boundaries / headers and a few inside payloads
}

func c05Shapes(tier string) []c05Shape {
	k := maskKeys[3]
	fr := func(masked bool, op byte, fin bool, rsv1 bool, p []byte) wsref.Frame {
		return wsref.Frame{Fin: fin, Opcode: op, Rsv1: rsv1, Masked: masked, Key: k, Payload: p}
	}
	shapes := []c05Shape{
		{name: "single-10", deflate: false, build: func(m bool) []wsref.Frame { return []wsref.Frame{fr(m, 2, true, false, Pattern(0, 10))} }},
		{name: "single-300", deflate: false, build: func(m bool) []wsref.Frame { return []wsref.Frame{fr(m, 2, true, false, Pattern(0, 300))} }},
		{name: "frag-300+5", deflate: false, build: func(m bool) []wsref.Frame {
			return []wsref.Frame{fr(m, 1, false, false, Pattern(4, 300)), fr(m, 0, true, false, Pattern(4, 5))}
		}},
		{name: "frag-3+ping+0+4", deflate: false, build: func(m bool) []wsref.Frame {
			return []wsref.Frame{fr(m, 2, false, false, Pattern(0, 3)), fr(m, 9, true, false, []byte("pi")), fr(m, 0, false, false, nil), fr(m, 0, true, false, Pattern(3, 4))}
		}},
		{name: "frag-3+0fin,0", deflate: false, build: func(m bool) []wsref.Frame {
			// empty final fragment, then an empty message: a frame without payload is complete only
			// when its whole header (mask key included) has arrived
			return []wsref.Frame{fr(m, 2, false, false, Pattern(0, 3)), fr(m, 0, true, false, nil), fr(m, 1, true, false, nil)}
		}},
		{name: "two-msgs-130+126", deflate: false, build: func(m bool) []wsref.Frame {
			return []wsref.Frame{fr(m, 1, true, false, Pattern(4, 130)), fr(m, 2, true, false, Pattern(0, 126))}
		}},
		{name: "deflate-frag", deflate: true, build: func(m bool) []wsref.Frame {
			w := wsref.Deflate(Pattern(0, 200), 1)
			return []wsref.Frame{fr(m, 2, false, true, w[:len(w)/2]), fr(m, 0, true, false, w[len(w)/2:]), fr(m, 1, true, false, []byte("plain"))}
		}},
		{name: "deflate-stored-300", deflate: true, build: func(m bool) []wsref.Frame {
			w := wsref.Deflate(Pattern(3, 300), 0)
			return []wsref.Frame{fr(m, 2, true, true, w)}
		}},
	}
	// frames in the 16-bit and 64-bit length forms (cuts inside the extended length and the mask key)
	shapes = append(shapes,
		c05Shape{name: "single-65536", sparse: true, build: func(m bool) []wsref.Frame { return []wsref.Frame{fr(m, 2, true, false, Pattern(0, 65536))} }},
		c05Shape{name: "frag-5+66000", sparse: true, build: func(m bool) []wsref.Frame {
			return []wsref.Frame{fr(m, 1, false, false, Pattern(4, 5)), fr(m, 0, true, false, Pattern(4, 66000)), fr(m, 1, true, false, []byte("tail"))}
		}},
	)
	if tier == "thorough" {
		shapes = append(shapes,
			c05Shape{name: "frag-125+125+125", deflate: false, build: func(m bool) []wsref.Frame {
				return []wsref.Frame{fr(m, 2, false, false, Pattern(0, 125)), fr(m, 0, false, false, Pattern(1, 125)), fr(m, 0, true, false, Pattern(2, 125))}
			}},
			c05Shape{name: "single-0", deflate: false, build: func(m bool) []wsref.Frame { return []wsref.Frame{fr(m, 1, true, false, nil)} }},
			c05Shape{name: "three-msgs", deflate: false, build: func(m bool) []wsref.Frame {
				return []wsref.Frame{fr(m, 1, true, false, []byte("a")), fr(m, 10, true, false, nil), fr(m, 2, false, false, Pattern(0, 256)), fr(m, 0, true, false, Pattern(0, 1)), fr(m, 1, true, false, []byte("zz"))}
			}},
		)
	}
	return shapes
}

var c05Faults = []struct {
	name     string
	atEnd    netsim.Fault
	lastWith netsim.Fault
}{
	{"(0,EOF)", netsim.FailEOF, netsim.OK},
	{"(n,EOF)", netsim.FailEOF, netsim.FailDataEOF},
	{"(0,err)", netsim.FailErr, netsim.OK},
	{"(n,err)", netsim.FailErr, netsim.FailDataErr},
	{"(0,timeout)", netsim.FailTimeout, netsim.OK},
	{"(n,timeout)", netsim.FailTimeout, netsim.FailTimeout},
}

func c05Scenarios(tier string) []*explore.Scenario {
	var scs []*explore.Scenario
	rbss := []int{125, 4096}
	if tier == "thorough" {
		rbss = []int{125, 256, 4096}
	}
	for _, sh := range c05Shapes(tier) {
		for _, readerIsServer := range []bool{true, false} {
			for _, rbs := range rbss {
				for fi := range c05Faults {
					sh, readerIsServer, rbs, fi := sh, readerIsServer, rbs, fi
					scs = append(scs, &explore.Scenario{
						Name:  fmt.Sprintf("c05/%s/reader=%s/rbs=%d/fault=%s", sh.name, roleName(readerIsServer), rbs, c05Faults[fi].name),
						Bound: 0,
						Body:  func(x *explore.Ctx) { c05Body(x, sh, readerIsServer, rbs, fi, tier) },
					})
				}
			}
		}
	}
	return scs
}

var c05ReadSizes = []int{4096, 1, 64, 125}

func c05Body(x *explore.Ctx, sh c05Shape, readerIsServer bool, rbs, fi int, tier string) {
	frames := sh.build(readerIsServer)
	stream := wsref.EncodeAll(frames)
	full, err := wsref.DecodeStrict(stream, wsref.StrictOpts{Sender: RoleOf(!readerIsServer), Deflate: sh.deflate})
	if err != nil {
		panic("c05: generator produced a non-conformant stream: " + err.Error())
	}
	msgs := full.Data()
	var cut int
	if sh.sparse {
		seen := map[int]bool{}
		var cuts []int
		add := func(o int) {
			if o >= 0 && o <= len(stream) && !seen[o] {
				seen[o] = true
				cuts = append(cuts, o)
			}
		}
		for _, f := range full.Frames {
			for d := 0; d <= 16; d++ {
				add(f.Off + d)
			}
			add((f.Off + f.End) / 2)
			add(f.End - 1)
			add(f.End)
		}
		cut = cuts[x.Pick(len(cuts), "cut")]
	} else {
		cut = x.Pick(len(stream)+1, "cut")
	}
	chunking := x.Pick(3, "chunking")
	prog := x.Pick(4, "readprog") // 0 ReadMessage, 1 NextReader+Read, 2 NextReader + read one byte, then abandon, 3 JoinMessages
	rsize := 4096
	if prog == 1 {
		rsize = c05ReadSizes[x.Pick(len(c05ReadSizes), "readsize")]
	}
	ft := c05Faults[fi]
	// the fault either persists (the stream ends there) or is a one-shot: the transport reports
	// it once at that offset and then goes on delivering the rest of the stream
	oneShot := x.Pick(2, "fault-persists|one-shot") == 1
	nc := netsim.NewConn(stream[:cut])
	nc.NoReadLog = true
	nc.AtEnd, nc.LastWith = ft.atEnd, ft.lastWith
	if oneShot {
		nc = netsim.NewConn(stream)
		nc.NoReadLog = true
		nc.OneShotAt, nc.OneShotKind, nc.OneShotData = cut, ft.atEnd, ft.lastWith != netsim.OK
		if ft.lastWith == netsim.FailDataEOF {
			nc.OneShotKind = netsim.FailEOF
		}
	}
	switch chunking {
	case 1:
		nc.Chunk = netsim.ChunkFixed(1)
	case 2:
		var offs []int
		for _, f := range full.Frames {
			offs = append(offs, f.Off, f.End)
		}
		nc.Chunk = netsim.ChunkAtOffsets(offs)
	}
	c := websocket.VerifNewConn(nc, readerIsServer, rbs, 150, nil, sh.deflate)
	key := func(what string) string {
		return fmt.Sprintf("C05:%s:fault=%s:deflate=%v", what, ft.name, sh.deflate)
	}
	if cut > 0 {
		x.NonTrivial()
	}
	if prog == 3 {
		// JoinMessages: the concatenation must be a prefix of the concatenated messages, cover every
		// message that had completely arrived, and end with the connection's error - never a clean end
		all, jerr := io.ReadAll(io.LimitReader(websocket.JoinMessages(c, ""), 1<<24))
		var cat []byte
		mustLen, mayLen := 0, 0
		for _, m := range msgs {
			cat = append(cat, m.Payload...)
			if m.EndOff <= cut {
				mayLen = len(cat)
			}
		}
		ab := cut
		if nc.FailStart >= 0 {
			ab = nc.FailStart
		}
		sum := 0
		for _, m := range msgs {
			sum += len(m.Payload)
			if m.EndOff <= ab {
				mustLen = sum
			}
		}
		x.Obs("join: %d bytes err=%v", len(all), jerr)
		// (an end of stream exactly at a message boundary is indistinguishable from a complete
		// stream: a clean end is acceptable there)
		atBoundary := cut == 0
		for _, m := range msgs {
			if m.EndOff == cut {
				atBoundary = true
			}
		}
		x.Check(jerr != nil || (atBoundary && ft.atEnd == netsim.FailEOF), key("join-clean-end"), "JoinMessages reader ended cleanly although the transport failed inside a message (offset %d of %d)", cut, len(stream))
		x.Check(bytes.HasPrefix(cat, all), key("corrupt"), "JoinMessages delivered bytes that are not a prefix of the messages sent")
		x.Check(len(all) >= mustLen, key("lost-complete"), "JoinMessages delivered %d bytes, %d belong to messages that had completely arrived", len(all), mustLen)
		_ = mayLen
		_, r, err := c.NextReader()
		x.Check(err != nil && r == nil, key("resurrected"), "NextReader after the JoinMessages error returned a reader")
		if sh.deflate {
			freshReadProbe(x, key("fresh-connection-fails"))
		}
		return
	}
	// ---- run the read program until the first error
	var got, abandoned []wsref.Message
	var firstErr error
	fromNext := false
	var partial []byte
	for i := 0; i <= len(msgs)+1 && firstErr == nil; i++ {
		if prog == 0 {
			t, p, err := c.ReadMessage()
			if err != nil {
				firstErr, partial = err, p
				fromNext = t == -1 && p == nil
				break
			}
			got = append(got, wsref.Message{Type: t, Payload: p})
			continue
		}
		t, r, err := c.NextReader()
		if err != nil {
			firstErr, fromNext = err, true
			break
		}
		if prog == 2 {
			var b [1]byte
			n, _ := r.Read(b[:])
			abandoned = append(abandoned, wsref.Message{Type: t, Payload: b[:n]})
			continue
		}
		var all []byte
		buf := make([]byte, rsize)
		for {
			n, err := r.Read(buf)
			all = append(all, buf[:n]...)
			if err == io.EOF {
				got = append(got, wsref.Message{Type: t, Payload: all})
				break
			}
			if err != nil {
				firstErr, partial = err, all
				break
			}
		}
	}
	x.Obs("cut=%d/%d delivered=%s partial=%d err=%v fromNext=%v failstart=%d", cut, len(stream), fmtMsgs(got), len(partial), firstErr, fromNext, nc.FailStart)
	x.Check(firstErr != nil, key("no-error"), "transport fault %s at offset %d of %d (one-shot=%v) but the read program saw no error; delivered %s, started %d", ft.name, cut, len(stream), oneShot, fmtMsgs(got), len(abandoned))
	// ---- oracle
	arrivedBefore := cut
	if nc.FailStart >= 0 {
		arrivedBefore = nc.FailStart
	}
	if prog == 2 {
		// abandon program: a message was "started" when NextReader returned it; every message that
		// had completely arrived must have been started, and at most one more (the partial one)
		mustS, mayS := 0, 0
		for _, m := range msgs {
			if m.EndOff <= arrivedBefore {
				mustS++
			}
			if m.EndOff <= cut {
				mayS++
			}
		}
		// (after a one-shot fault the transport goes on delivering the rest of the stream: a reader
		// that reports the fault a little later has not truncated or invented anything, so only the
		// content checks and "an error is reported" apply; with a persisting fault nothing beyond the
		// cut exists, so more messages than arrived can only have been made up)
		x.Check(oneShot || len(abandoned) <= mayS+1, key("abandon-delivered-after-fault"), "%d messages were handed out although the fault at offset %d allows at most %d (+1 partial)", len(abandoned), cut, mayS)
		x.Check(len(abandoned) >= mustS, key("lost-complete"), "%d messages had completely arrived before the fault but only %d were handed out before the error %v", mustS, len(abandoned), firstErr)
		for i, m := range abandoned {
			x.Check(i < len(msgs) && m.Type == msgs[i].Type && bytes.HasPrefix(msgs[i].Payload, m.Payload), key("corrupt"), "abandoned message %d differs from what was sent", i)
		}
	}
	must, may := 0, 0
	for _, m := range msgs {
		if m.EndOff <= arrivedBefore {
			must++
		}
		if m.EndOff <= cut {
			may++
		}
	}
	x.Check(oneShot || len(got) <= may, key("truncated-as-complete"), "%d messages reported complete but only %d had completely arrived (cut %d of %d); last reported %s", len(got), may, cut, len(stream), fmtMsgs(got[max(0, len(got)-1):]))
	for i, m := range got {
		x.Check(m.Type == msgs[i].Type && bytes.Equal(m.Payload, msgs[i].Payload), key("corrupt"), "message %d reported complete differs from what was sent: %s vs %s", i, short(m.Payload), short(msgs[i].Payload))
	}
	x.Check(prog == 2 || len(got) >= must, key("lost-complete"), "%d messages had completely arrived before the failing transport read (offset %d) but only %d were reported before the error %v", must, arrivedBefore, len(got), firstErr)
	if !fromNext {
		// the error surfaced while reading a message: it is a partial message
		x.Check(firstErr != io.EOF, key("partial-eof"), "partially received message ended with io.EOF")
		if len(got) < len(msgs) {
			x.Check(bytes.HasPrefix(msgs[len(got)].Payload, partial), key("partial-corrupt"), "bytes delivered for the partial message are not a prefix of it")
		}
	}
	// ---- afterwards: NextReader fails, always with the same error, nothing delivered -
	// also when the transport "recovers" and the rest of the stream becomes readable
	if !oneShot && x.Pick(2, "transport-recovers-after-the-error") == 1 {
		nc.In = append(append([]byte{}, nc.In...), stream[cut:]...)
		nc.AtEnd, nc.LastWith = netsim.FailEOF, netsim.OK
	}
	reps := 5
	if tier == "thorough" {
		reps = 990
	}
	var nextErr error
	for i := 0; i < reps; i++ {
		t, r, err := c.NextReader()
		x.Check(err != nil && r == nil, key("resurrected"), "NextReader #%d after the failure returned a reader (type %d)", i+1, t)
		if i == 0 {
			nextErr = err
			if fromNext {
				x.Check(SameErr(err, firstErr), key("not-sticky"), "NextReader returned %v, then %v", firstErr, err)
			}
		} else {
			x.Check(SameErr(err, nextErr), key("not-sticky"), "NextReader #%d returned %v, earlier %v", i+1, err, nextErr)
		}
	}
	if sh.deflate {
		freshReadProbe(x, key("fresh-connection-fails"))
	}
}
