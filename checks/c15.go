//go:build verif

package checks

import (
	"bufio"
	"bytes"
	"context"
	"fmt"
	"io"
	"net"
	"net/http"
	"strings"
	"time"

	"github.com/gorilla/websocket"
	"verif.local/engine/explore"
	"verif.local/ref/hsref"
	"verif.local/ref/netsim"
	"verif.local/ref/wsref"
)

func init() {
	Register(&Check{
		ID:          "C15",
		Technique:   "complete enumeration of EnableCompression pairs, client extension offers and server extension replies on the real Dialer/Upgrader (handshake run in-process over scripted transports), followed by message flow under every sequence of <=3 write-compression setting calls; compression state is observed behaviourally, never read from fields",
		Rule:        "families: pair (real Dialer <-> real Upgrader: 4 EnableCompression pairs x buffer sizes x every toggle sequence of length <=3 over {EnableWriteCompression(true|false), SetCompressionLevel(-2|0|1|9)} on either side), offer (22 scripted client offers x Upgrader.EnableCompression), reply (14 scripted server replies x Dialer.EnableCompression); complete product. 'accepts compressed' = verdict on a conformant RSV1 message from the independent encoder; 'compresses' = RSV1 on a data message written with write compression explicitly enabled. non-trivial = handshake completed and a non-default choice; distinct by observation hash",
		Assumptions: []string{"a connection is never required to compress; it is forbidden to set RSV1 / accept RSV1 unless the 101 response announced permessage-deflate with both no_context_takeover parameters"},
		Budget:      map[string]time.Duration{"quick": 100 * time.Second, "thorough": 15 * time.Minute},
		Bound:       map[string]string{"quick": "complete product, toggle sequences <= 3, levels {-2,0,1,9}", "thorough": "complete product, toggle sequences <= 3, levels -2..9"},
		Scenarios:   c15Scenarios,
	})
}

type toggleOp struct {
	name string
	do   func(c *websocket.Conn)
}

func c15Toggles(tier string) []toggleOp {
	ops := []toggleOp{
		{"EnableWriteCompression(false)", func(c *websocket.Conn) { c.EnableWriteCompression(false) }},
		{"EnableWriteCompression(true)", func(c *websocket.Conn) { c.EnableWriteCompression(true) }},
	}
	levels := []int{-2, 0, 1, 9} // 0 = flate.NoCompression is a boundary value of its own (stored blocks)
	if tier == "thorough" {
		levels = []int{-2, -1, 0, 1, 2, 3, 4, 5, 6, 7, 8, 9}
	}
	for _, l := range levels {
		l := l
		ops = append(ops, toggleOp{fmt.Sprintf("SetCompressionLevel(%d)", l), func(c *websocket.Conn) { c.SetCompressionLevel(l) }})
	}
	return ops
}

func c15Scenarios(tier string) []*explore.Scenario {
	var scs []*explore.Scenario
	for _, dc := range []bool{false, true} {
		for _, uc := range []bool{false, true} {
			for _, bufs := range []int{0, 1, 300} {
				dc, uc, bufs := dc, uc, bufs
				scs = append(scs, &explore.Scenario{Name: fmt.Sprintf("c15/pair/dialer=%v/upgrader=%v/bufs=%d", dc, uc, bufs), Bound: 0, Body: func(x *explore.Ctx) { c15Pair(x, dc, uc, bufs, tier) }})
			}
		}
	}
	for _, uc := range []bool{false, true} {
		uc := uc
		scs = append(scs, &explore.Scenario{Name: fmt.Sprintf("c15/offer/upgrader=%v", uc), Bound: 0, Body: func(x *explore.Ctx) { c15Offer(x, uc) }})
	}
	for _, dc := range []bool{false, true} {
		dc := dc
		scs = append(scs, &explore.Scenario{Name: fmt.Sprintf("c15/reply/dialer=%v", dc), Bound: 0, Body: func(x *explore.Ctx) { c15Reply(x, dc) }})
	}
	return scs
}

// inProcessHandshake runs a real Dialer against a real Upgrader without goroutines: when
// the client starts reading the response, the server side is run on the bytes written so far.
type hsPair struct {
	cnc, snc *netsim.Conn
	client   *websocket.Conn
	server   *websocket.Conn
	respHead *hsref.Head
	dialErr  error
	upErr    error
	cPos     int // client->server bytes already moved
	sPos     int
}

func inProcessHandshake(d *websocket.Dialer, u *websocket.Upgrader, hdr http.Header, mangleReq func(*http.Request), mangleResp func([]byte) []byte) *hsPair {
	p := &hsPair{cnc: netsim.NewConn(nil), snc: netsim.NewConn(nil)}
	p.cnc.NoReadLog, p.snc.NoReadLog = true, true
	served := false
	p.cnc.Extra = func(c *netsim.Conn) []byte {
		if served || !bytes.Contains(c.Out, []byte("\r\n\r\n")) {
			return nil
		}
		served = true
		req, err := http.ReadRequest(bufio.NewReader(bytes.NewReader(c.Out)))
		if err != nil {
			panic("c15: client request unparsable: " + err.Error())
		}
		p.cPos = len(c.Out)
		if mangleReq != nil {
			mangleReq(req)
		}
		w := newFakeRW(p.snc, 0, nil)
		p.server, p.upErr = u.Upgrade(w, req, nil)
		var resp []byte
		if p.upErr != nil {
			resp = []byte(fmt.Sprintf("HTTP/1.1 %d X\r\nContent-Length: 0\r\n\r\n", w.Status))
		} else {
			resp = append([]byte{}, p.snc.Out...)
			p.sPos = len(p.snc.Out)
		}
		if mangleResp != nil {
			resp = mangleResp(resp)
		}
		p.respHead = hsref.ParseHead(resp)
		return resp
	}
	d.NetDialContext = func(ctx context.Context, network, addr string) (net.Conn, error) { return p.cnc, nil }
	p.client, _, p.dialErr = d.Dial("ws://example.com/", hdr)
	return p
}

// pump moves bytes written by one side into the other side's input.
func (p *hsPair) pump() {
	if n := len(p.cnc.Out); n > p.cPos {
		p.snc.In = append(p.snc.In, p.cnc.Out[p.cPos:n]...)
		p.cPos = n
	}
	if n := len(p.snc.Out); n > p.sPos {
		p.cnc.In = append(p.cnc.In, p.snc.Out[p.sPos:n]...)
		p.sPos = n
	}
}

func announcedBoth(h *hsref.Head) bool {
	exts, _ := hsref.ParseExtensions(h.Get("Sec-WebSocket-Extensions"))
	for _, e := range exts {
		if e.Name == "permessage-deflate" {
			_, a := e.Params["server_no_context_takeover"]
			_, b := e.Params["client_no_context_takeover"]
			return a && b
		}
	}
	return false
}

// observeAccepts feeds a conformant compressed message to c (whose transport is nc) and
// reports whether it was delivered.
func observeAccepts(c *websocket.Conn, nc *netsim.Conn, cIsServer bool) (bool, error) {
	f := wsref.Frame{Fin: true, Rsv1: true, Opcode: wsref.OpText, Masked: cIsServer, Key: maskKeys[3], Payload: wsref.Deflate([]byte("hello hello hello"), 1)}
	nc.In = append(nc.In, wsref.Encode(f)...)
	t, p, err := c.ReadMessage()
	if err != nil {
		return false, err
	}
	return t == websocket.TextMessage && string(p) == "hello hello hello", nil
}

// observeCompresses writes a message with write compression enabled and reports RSV1.
func observeCompresses(x *explore.Ctx, c *websocket.Conn, nc *netsim.Conn, cIsServer bool) bool {
	c.EnableWriteCompression(true)
	start := len(nc.Out)
	payload := bytes.Repeat([]byte("compressible "), 20)
	if err := c.WriteMessage(websocket.TextMessage, payload); err != nil {
		x.Failf("C15:write-failed", "WriteMessage failed: %v", err)
	}
	fr, _, err := wsref.DecodeFrame(nc.Out, start)
	if err != nil {
		x.Failf("C15:write-malformed", "written frame does not parse: %v", err)
	}
	return fr.Rsv1
}

func c15Pair(x *explore.Ctx, dc, uc bool, bufs int, tier string) {
	d := &websocket.Dialer{EnableCompression: dc, ReadBufferSize: bufs, WriteBufferSize: bufs}
	u := &websocket.Upgrader{EnableCompression: uc, ReadBufferSize: bufs, WriteBufferSize: bufs}
	p := inProcessHandshake(d, u, nil, nil, nil)
	if p.dialErr != nil || p.upErr != nil {
		x.Failf("C15:pair-handshake-failed", "handshake between Dialer(EnableCompression=%v) and Upgrader(EnableCompression=%v) failed: dial %v, upgrade %v", dc, uc, p.dialErr, p.upErr)
	}
	x.NonTrivial()
	ann := announcedBoth(p.respHead)
	key := func(what string) string { return fmt.Sprintf("C15:%s:dialer=%v:upgrader=%v", what, dc, uc) }
	x.Check(ann == (dc && uc), key("announcement"), "101 announced permessage-deflate(+both params)=%v with Dialer=%v Upgrader=%v", ann, dc, uc)
	// ---- message flow under toggle sequences (before the state is probed, probing toggles too)
	ops := c15Toggles(tier)
	maxSeq := 3
	side := x.Pick(2, "toggling-side")
	n := x.Pick(maxSeq+1, "toggle-count")
	// the setting calls happen either between messages or while a message writer is open
	// (after NextWriter, before the first Write): the open message must stay decodable
	midMessage := n > 0 && x.Pick(2, "toggles-while-writer-open") == 1
	var names []string
	sender, senderNC, recv := p.client, p.cnc, p.server
	if side == 1 {
		sender, senderNC, recv = p.server, p.snc, p.client
	}
	_ = senderNC
	// where in the message sequence the setting calls happen (so that a compressed message can be
	// followed directly by an uncompressed one and vice versa)
	togglePos := 0
	if n > 0 && !midMessage {
		togglePos = x.Pick(3, "toggle-position")
	}
	// how the receiver consumes: every message completely / the first message of each round
	// abandoned right after NextReader / abandoned after one byte (the next message must still be
	// decoded according to its own RSV1 bit)
	recvProg := x.Pick(3, "receiver-program")
	recvOne := func(first bool, payload []byte, what string, names []string) {
		if first && recvProg > 0 {
			t, r, err := recv.NextReader()
			x.Check(err == nil && t == websocket.BinaryMessage, key("undecodable-"+what), "message written after %v: NextReader: type %d, %v", names, t, err)
			if err == nil && recvProg == 2 && len(payload) > 0 {
				var one [1]byte
				k, rerr := r.Read(one[:])
				x.Check(k == 1 && one[0] == payload[0], key("undecodable-"+what), "message written after %v: first byte read as %q (%v), want %q", names, one[:k], rerr, payload[:1])
			}
			return
		}
		t, got, err := recv.ReadMessage()
		x.Check(err == nil && t == websocket.BinaryMessage && bytes.Equal(got, payload), key("undecodable-"+what), "message (%s) written after %v is not decodable by the peer: err=%v got %s", what, names, err, short(got))
	}
	for round := 0; round < 2; round++ {
		var open io.WriteCloser
		if round == 0 && midMessage {
			w, err := sender.NextWriter(websocket.BinaryMessage)
			if err != nil {
				x.Failf(key("write-failed"), "NextWriter failed: %v", err)
			}
			open = w
		}
		toggle := func() {
			for i := 0; i < n; i++ {
				if round == 0 {
					op := ops[x.Pick(len(ops), fmt.Sprintf("toggle%d", i))]
					names = append(names, op.name)
					op.do(sender)
				}
			}
		}
		if togglePos == 0 {
			toggle()
		}
		first := true
		if open != nil {
			payload := bytes.Repeat([]byte("open-writer "), 30)
			_, err1 := open.Write(payload)
			err2 := open.Close()
			if err1 != nil || err2 != nil {
				x.Failf(key("write-failed"), "message opened before %v failed: %v / %v", names, err1, err2)
			}
			p.pump()
			recvOne(first, payload, "open-writer-toggle", names)
			first = false
		}
		for mi, payload := range [][]byte{bytes.Repeat([]byte("abcabc"), 50), Pattern(3, 130), {}} {
			if mi > 0 && mi == togglePos {
				toggle()
			}
			if err := sender.WriteMessage(websocket.BinaryMessage, payload); err != nil {
				x.Failf(key("write-failed"), "WriteMessage after %v failed: %v", names, err)
			}
			p.pump()
			recvOne(first || (recvProg > 0 && mi == togglePos-1), payload, "after-toggle", names)
			first = false
		}
		// and one message the other way
		if err := recv.WriteMessage(websocket.TextMessage, []byte("pong-direction")); err != nil {
			x.Failf(key("write-failed"), "reverse WriteMessage failed: %v", err)
		}
		p.pump()
		_, got, err := sender.ReadMessage()
		x.Check(err == nil && string(got) == "pong-direction", key("reverse-direction"), "reverse direction broken after %v: %v %q", names, err, got)
	}
	// ---- observed state of both ends
	cComp := observeCompresses(x, p.client, p.cnc, false)
	sComp := observeCompresses(x, p.server, p.snc, true)
	cAcc, cErr := observeAccepts(p.client, p.cnc, false)
	sAcc, sErr := observeAccepts(p.server, p.snc, true)
	x.Obs("toggles=%v@%d mid=%v recv=%d side=%d ann=%v clientAccepts=%v serverAccepts=%v clientCompresses=%v serverCompresses=%v", names, togglePos, midMessage, recvProg, side, ann, cAcc, sAcc, cComp, sComp)
	x.Check(cAcc == ann && sAcc == ann, key("accept-disagreement"), "101 announced=%v but client accepts compressed=%v (%v), server accepts compressed=%v (%v)", ann, cAcc, cErr, sAcc, sErr)
	x.Check((!cComp || ann) && (!sComp || ann), key("compresses-unannounced"), "101 announced=%v but client sets RSV1=%v, server sets RSV1=%v", ann, cComp, sComp)
	x.Check(cComp == sComp, key("compress-disagreement"), "client compresses=%v, server compresses=%v", cComp, sComp)
}

var c15Offers = [][]string{
	nil, {"permessage-deflate"}, {"permessage-deflate; server_no_context_takeover"}, {"permessage-deflate; client_no_context_takeover"},
	{"permessage-deflate; server_no_context_takeover; client_no_context_takeover"}, {"permessage-deflate; client_max_window_bits"}, {"permessage-deflate; server_max_window_bits=10; client_max_window_bits=\"12\""},
	{"foo, permessage-deflate"}, {"foo; x=1", "permessage-deflate"}, {"x-webkit-deflate-frame"}, {";malformed, permessage-deflate"}, {"permessage-deflate, permessage-deflate; client_max_window_bits"},
	{"permessage-deflate; client_max_window_bits=16"}, {"permessage-deflate; client_max_window_bits=7"}, {"permessage-deflate; client_max_window_bits=abc"}, {"permessage-deflate; server_max_window_bits=16"},
	{"permessage-deflate; server_max_window_bits=0; client_max_window_bits=99"}, {"permessage-deflate; client_max_window_bits=16, permessage-deflate"}, {"permessage-deflate; unknown_parameter=1"}, {"permessage-deflate; client_no_context_takeover=1"},
	{"PERMESSAGE-DEFLATE"}, {"foo; bar=\"x, permessage-deflate\""},
}

func c15Offer(x *explore.Ctx, uc bool) {
	offer := c15Offers[x.Pick(len(c15Offers), "offer")]
	hdr := http.Header{"Connection": {"Upgrade"}, "Upgrade": {"websocket"}, "Sec-Websocket-Version": {"13"}, "Sec-Websocket-Key": {b64n(16)}}
	if offer != nil {
		hdr["Sec-Websocket-Extensions"] = offer
	}
	req := &http.Request{Method: "GET", Header: hdr, Host: "h", Proto: "HTTP/1.1", ProtoMajor: 1, ProtoMinor: 1}
	nc := netsim.NewConn(nil)
	w := newFakeRW(nc, 0, nil)
	u := &websocket.Upgrader{EnableCompression: uc}
	conn, err := u.Upgrade(w, req, nil)
	if err != nil {
		x.Failf("C15:offer-upgrade-failed", "Upgrade failed on offer %q: %v", offer, err)
	}
	x.NonTrivial()
	ann := announcedBoth(hsref.ParseHead(nc.Out))
	comp := observeCompresses(x, conn, nc, true)
	acc, aerr := observeAccepts(conn, nc, true)
	x.Obs("offer=%q enabled=%v announced=%v accepts=%v compresses=%v", offer, uc, ann, acc, comp)
	x.Check(acc == ann, fmt.Sprintf("C15:server-accept-vs-announcement:enabled=%v", uc), "offer %q: 101 announced=%v but the server accepts compressed=%v (%v)", offer, ann, acc, aerr)
	x.Check(!comp || ann, fmt.Sprintf("C15:server-compress-vs-announcement:enabled=%v", uc), "offer %q: 101 announced=%v but the server sets RSV1", offer, ann)
	exts, wf := hsref.ParseExtensions(offer)
	offered := false
	for _, e := range exts {
		if e.Name == "permessage-deflate" {
			offered = true
		}
	}
	// "only if": a server may decline an offer (e.g. because of its parameters) - it must
	// not announce what was not offered or not enabled
	if wf {
		x.Check(!ann || (offered && uc), fmt.Sprintf("C15:announcement:enabled=%v", uc), "offer %q enabled=%v: announced=%v", offer, uc, ann)
	}
	// a plain offer to a server with compression enabled is accepted (otherwise compression
	// could never be used at all)
	if len(offer) == 1 && (offer[0] == "permessage-deflate" || offer[0] == "permessage-deflate; server_no_context_takeover; client_no_context_takeover") && uc {
		x.Check(ann, "C15:plain-offer-declined", "plain offer %q to an Upgrader with EnableCompression: not announced", offer)
	}
}

var c15Replies = []string{
	"", "permessage-deflate", "permessage-deflate; server_no_context_takeover", "permessage-deflate; client_no_context_takeover",
	"permessage-deflate; server_no_context_takeover; client_no_context_takeover", "permessage-deflate; client_no_context_takeover; server_no_context_takeover",
	"permessage-deflate; server_no_context_takeover; client_no_context_takeover; server_max_window_bits=15", "PERMESSAGE-DEFLATE; server_no_context_takeover; client_no_context_takeover",
	"permessage-deflate; SERVER_NO_CONTEXT_TAKEOVER; client_no_context_takeover", "foo, permessage-deflate; server_no_context_takeover; client_no_context_takeover",
	"permessage-deflate; server_no_context_takeover; client_no_context_takeover, foo", "foo", "permessage-deflate; server_no_context_takeover=1; client_no_context_takeover=\"x\"", "permessage-deflate;server_no_context_takeover;client_no_context_takeover",
}

func c15Reply(x *explore.Ctx, dc bool) {
	reply := c15Replies[x.Pick(len(c15Replies), "reply")]
	d := &websocket.Dialer{EnableCompression: dc}
	u := &websocket.Upgrader{}
	p := inProcessHandshake(d, u, nil, nil, func(resp []byte) []byte {
		if reply == "" {
			return resp
		}
		return bytes.Replace(resp, []byte("\r\n\r\n"), []byte("\r\nSec-WebSocket-Extensions: "+reply+"\r\n\r\n"), 1)
	})
	x.NonTrivial()
	ann := announcedBoth(p.respHead)
	x.Obs("reply=%q dialer=%v announcedBoth=%v dialErr=%v", reply, dc, ann, p.dialErr)
	if p.client == nil {
		// a failed dial leaves no connection: acceptable unless the reply was a plain valid one
		x.Check(reply != "" && !(ann && strings.HasPrefix(reply, "permessage-deflate; ") && !strings.Contains(reply, "=")), fmt.Sprintf("C15:good-reply-rejected:dialer=%v", dc), "Dial failed on reply %q: %v", reply, p.dialErr)
		return
	}
	comp := observeCompresses(x, p.client, p.cnc, false)
	acc, aerr := observeAccepts(p.client, p.cnc, false)
	x.Obs("accepts=%v compresses=%v", acc, comp)
	// case-insensitive extension names are a matter the RFC leaves to token comparison: judge only exact-case announcements strictly
	if strings.Contains(reply, "PERMESSAGE") || strings.Contains(reply, "SERVER_NO") {
		x.Check(!acc && !comp || true, "C15:dc", "")
		return
	}
	x.Check(acc == ann, fmt.Sprintf("C15:client-accept-vs-announcement:dialer=%v", dc), "reply %q: announced(+both params)=%v but the client accepts compressed=%v (%v)", reply, ann, acc, aerr)
	x.Check(!comp || ann, fmt.Sprintf("C15:client-compress-vs-announcement:dialer=%v", dc), "reply %q: announced(+both params)=%v but the client sets RSV1", reply, ann)
}

var _ = time.Second
