//go:build verif

package checks

import (
	"bufio"
	"bytes"
	"errors"
	"net"
	"net/http"

	"verif.local/ref/netsim"
)

// fakeRW is a hijackable http.ResponseWriter over a scripted connection, built the way
// net/http does it: the bufio.Reader handed out by Hijack is layered over the very
// connection object that Hijack returns.
type fakeRW struct {
	hdr        http.Header
	Status     int
	Body       bytes.Buffer
	NC         *netsim.Conn
	BR         *bufio.Reader
	BW         *bufio.Writer
	Hijacks    int
	HijackErr  error
	wroteHdr   http.Header
	NoHijacker bool
	hijackConn net.Conn // when set, Hijack returns this connection instead of NC
}

func newFakeRW(nc *netsim.Conn, brSize int, preload []byte) *fakeRW {
	w := &fakeRW{hdr: http.Header{}, NC: nc}
	if brSize <= 0 {
		brSize = 4096
	}
	w.BR = bufio.NewReaderSize(nc, brSize)
	w.BW = bufio.NewWriterSize(nc, 4096)
	_ = preload
	return w
}

func (w *fakeRW) Header() http.Header { return w.hdr }
func (w *fakeRW) WriteHeader(s int) {
	if w.Status == 0 {
		w.Status = s
		w.wroteHdr = w.hdr.Clone()
	}
}
func (w *fakeRW) Write(p []byte) (int, error) {
	if w.Status == 0 {
		w.WriteHeader(200)
	}
	return w.Body.Write(p)
}
func (w *fakeRW) Hijack() (net.Conn, *bufio.ReadWriter, error) {
	w.Hijacks++
	if w.HijackErr != nil {
		return nil, nil, w.HijackErr
	}
	if w.hijackConn != nil {
		return w.hijackConn, bufio.NewReadWriter(w.BR, w.BW), nil
	}
	return w.NC, bufio.NewReadWriter(w.BR, w.BW), nil
}

var errHijack = errors.New("hijack refused")
