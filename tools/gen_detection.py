#!/usr/bin/env python3
"""Rewrites the 'Detection record' section of DESIGN.md from mutants/index.json and seeded/*/meta.json."""
import json,os,re,glob
rows=[]
idx=json.load(open('/verif/mutants/index.json'))
out=["### F. Detection record (which checks catch which changes)\n",
"Every change below compiles and passes the repository's own test suite. `./run selftest` re-applies each of the",
"hand-made ones to a scratch copy and requires a VIOLATION from the quick command of every listed check;",
"`tools/seedeval.sh seeded/<id> <checks>` does the same for the sub-agent changes and also confirms their demonstration",
"test (fails with the change, passes without). `tools/benign.sh` runs all 20 quick checks against the",
"property-preserving changes in `mutants/benign/` and requires silence.\n",
"**Hand-made mutants (`mutants/`)**\n","| mutant | what | caught by |","|---|---|---|"]
for k,v in sorted(idx.items()):
    out.append("| `%s` | %s | %s |"%(k[:-5],v['what'],', '.join(v['checks'])))
out+=["","**Changes written by fresh sub-agents that saw only the property text (`seeded/`)**\n","| id | property | change | needs | outcome |","|---|---|---|---|---|"]
for d in sorted(glob.glob('/verif/seeded/*/meta.json')):
    m=json.load(open(d)); sid=os.path.basename(os.path.dirname(d))
    out.append("| %s | %s | %s | %s | %s |"%(sid,m['property'],m['change'],m['needs_to_manifest'],m['result']))
ben=sorted(os.path.basename(f)[:-5] for f in glob.glob('/verif/mutants/benign/*.diff'))
out+=["","**Property-preserving changes (`mutants/benign/`, all 20 checks must stay quiet)**: "+', '.join('`%s`'%b for b in ben)+".",""]
sec='\n'.join(out)
p='/verif/DESIGN.md'
s=open(p).read()
if '### F. Detection record' in s:
    s=s[:s.index('### F. Detection record')]
s=s.rstrip('\n')+'\n\n'+sec
open(p,'w').write(s)
print("detection record written:",len(idx),"mutants,",len(glob.glob('/verif/seeded/*/meta.json')),"seeded")
