//go:build verif

package checks

import (
	"encoding/json"
	"errors"
	"fmt"
	"io"
	"sort"
	"strings"
	"sync"
	"time"

	"github.com/gorilla/websocket"
	"verif.local/engine/explore"
	"verif.local/ref/netsim"
)

// ---------------------------------------------------------------------------------------
// Shared vocabulary (DESIGN.md §3)

// (since the F1 fix every WriteBufferSize < 125 behaves as 125; 1 and 16 are kept to exercise the clamp)
var BufSizesQuick = []int{1, 125, 126, 300, 0}
var BufSizesThorough = []int{1, 16, 125, 126, 130, 300, 0, 65536, 70000}

func effB(b int) int {
	if b <= 0 {
		return 4096
	}
	return b
}

var sizeSetCache = map[[2]int][]int{}

// SizeSet returns S(B) (cached: it is asked for in every execution).
func SizeSet(b int, big bool) []int {
	ck := [2]int{b, 0}
	if big {
		ck[1] = 1
	}
	if r, ok := sizeSetCache[ck]; ok {
		return r
	}
	r := sizeSet(b, big)
	sizeSetCache[ck] = r
	return r
}

func sizeSet(b int, big bool) []int {
	B := effB(b)
	m := map[int]bool{}
	// boundaries relative to the payload capacity B and to the real buffer length B+14 (header
	// room included); for sizes above the direct-write threshold one representative per residue
	// zone modulo the buffer length: 0, inside the payload capacity, inside the header room
	L := B + 14
	for _, v := range []int{0, 1, 2, B - 1, B, B + 1, 2*B - 1, 2 * B, 2*B + 1, 2 * L, 2*L + 1, 3*B + 1, 124, 125, 126, 127,
		L - 1, L, L + 1, 3 * L, 3*L - 1, 3*L - 7, 2*L + B} {
		if v >= 0 {
			m[v] = true
		}
	}
	if big {
		m[65535], m[65536], m[65537] = true, true, true
	}
	var r []int
	for v := range m {
		r = append(r, v)
	}
	sort.Ints(r)
	return r
}

func cutsUpTo(set []int, lo, n int) []int {
	var r []int
	for _, v := range set {
		if v >= lo && v <= n {
			r = append(r, v)
		}
	}
	if len(r) == 0 || r[len(r)-1] != n {
		r = append(r, n)
	}
	return r
}

// ---------------------------------------------------------------------------------------
// Instrumented BufferPool

type PoolEvent struct {
	Op     string // "get" / "put"
	Conn   string
	Buf    int // buffer id (0 = none / fresh)
	Call   int // index of the API call in progress (stamp)
	OpIdx  int // number of transport ops logged so far (stamp)
	Poison bool
}

// LogPool is a deterministic BufferPool: LIFO, logs every call, poisons returned buffers.
type LogPool struct {
	free    []interface{}
	ids     map[*byte]int
	Events  []PoolEvent
	Who     string // name of the connection currently calling (set by the harness)
	Out     map[int]string
	Hook    func(op string)
	Stamp   func() (call, op int)
	hand    sync.Mutex // real Put->Get edge, as sync.Pool gives
	Problem string
}

//go:norace
func (p *LogPool) ev(op string, id int) {
	e := PoolEvent{Op: op, Conn: p.Who, Buf: id}
	if p.Stamp != nil {
		e.Call, e.OpIdx = p.Stamp()
	}
	p.Events = append(p.Events, e)
}

func NewLogPool() *LogPool { return &LogPool{ids: map[*byte]int{}, Out: map[int]string{}} }

//go:norace
func (p *LogPool) idOf(v interface{}) int {
	b := websocket.VerifPoolBuf(v)
	if len(b) == 0 {
		return 0
	}
	k := &b[0]
	id, ok := p.ids[k]
	if !ok {
		id = len(p.ids) + 1
		p.ids[k] = id
	}
	return id
}

//go:norace
func (p *LogPool) Get() interface{} {
	if p.Hook != nil {
		p.Hook("get")
	}
	p.hand.Lock()
	defer p.hand.Unlock()
	if len(p.free) == 0 {
		p.ev("get", 0)
		return nil
	}
	v := p.free[len(p.free)-1]
	p.free = p.free[:len(p.free)-1]
	id := p.idOf(v)
	p.ev("get", id)
	p.Out[id] = p.Who
	return v
}

//go:norace
func (p *LogPool) Put(v interface{}) {
	if p.Hook != nil {
		p.Hook("put")
	}
	p.hand.Lock()
	defer p.hand.Unlock()
	id := p.idOf(v)
	for _, f := range p.free {
		if p.idOf(f) == id && p.Problem == "" {
			p.Problem = fmt.Sprintf("buffer #%d put twice (second time by %s)", id, p.Who)
		}
	}
	p.ev("put", id)
	b := websocket.VerifPoolBuf(v)
	for i := range b {
		b[i] = 0xDD
	}
	delete(p.Out, id)
	p.free = append(p.free, v)
}

// Outstanding returns how many Gets by conn have not been matched by a Put.
func (p *LogPool) Outstanding(conn string) int {
	n := 0
	for _, e := range p.Events {
		if e.Conn != conn {
			continue
		}
		if e.Op == "get" {
			n++
		} else {
			n--
		}
	}
	return n
}

// ---------------------------------------------------------------------------------------
// Recording mask-key source

type MaskRec struct {
	pos   int
	Reads [][3]int // offset, length, epoch
	Epoch int
}

func maskStreamByte(i int) byte {
	g := uint32(i/4) * 2654435761
	return byte(g >> (8 * uint(3-i%4)))
}

func (m *MaskRec) Read(p []byte) (int, error) {
	for i := range p {
		p[i] = maskStreamByte(m.pos + i)
	}
	m.Reads = append(m.Reads, [3]int{m.pos, len(p), m.Epoch})
	m.pos += len(p)
	return len(p), nil
}

// FindWindow returns an offset o handed out no later than the given epoch (API call index) with
// stream[o:o+4]==key and none of whose bytes were used for an earlier frame, or -1.  (Randomness may be
// drawn ahead of its use, e.g. for several frames at once; what matters is that every frame gets its
// own fresh window.)
func (m *MaskRec) FindWindow(key [4]byte, epoch int, used map[int]bool) int {
	for _, r := range m.Reads {
		if r[2] > epoch {
			continue // drawn after the frame was written: cannot be its key
		}
		for o := r[0]; o+4 <= r[0]+r[1]; o++ {
			if maskStreamByte(o) == key[0] && maskStreamByte(o+1) == key[1] && maskStreamByte(o+2) == key[2] && maskStreamByte(o+3) == key[3] {
				if !used[o] && !used[o+1] && !used[o+2] && !used[o+3] {
					return o
				}
			}
		}
	}
	return -1
}

// ---------------------------------------------------------------------------------------
// Write programs

type SentMsg struct {
	Type     int
	Payload  []byte
	Call     int  // index into Calls of the API call that completed it
	Compress bool // write compression enabled (and negotiated) when the message was started
}

type APICall struct {
	Name     string
	Err      error
	W0, W1   int // range of transport Write calls issued during the call
	Op0, Op1 int // range of transport ops
	Epoch    int
	CtlDL    *time.Time // WriteControl: its own deadline argument
}

type WConfig struct {
	Server    bool
	B         int
	Compress  bool
	Pool      bool
	ForcePool bool
	Lean      bool // skip content dimensions (type, pattern, level) - used by the fault checks
	SizeIdx   int  // 1-based index into S(B) when the size is fixed by the scenario (0: picked inside)
	SizeAbs   int  // when > 0: the size of the first message, whatever S(B) holds (the big-message scenarios)
}

func (c WConfig) String() string {
	return fmt.Sprintf("writer=%s B=%d deflate=%v pool=%v", roleName(c.Server), c.B, c.Compress, c.Pool)
}

// WEnv is a writer connection plus its bookkeeping.
type WEnv struct {
	X            *explore.Ctx
	Cfg          WConfig
	NC           *netsim.Conn
	C            *websocket.Conn
	Pool         *LogPool
	Mask         *MaskRec
	Sent         []SentMsg
	Calls        []APICall
	WComp        bool // current EnableWriteCompression state
	Level        int
	OnErr        func(call *APICall) // called when an API call returned an error (default: violation)
	Sizes        []int
	open         io.WriteCloser // an abandoned writer, if any
	openMsg      *SentMsg
	Name         string
	Failed       bool // an API call failed (fault injection); later expectations are void
	CurKind      string
	Quick        bool
	AfterClose   func(w io.WriteCloser) // called after a successful explicit Close of a message writer
	BeforeFinish func()                 // called by writePhase after the last message, before an abandoned writer is closed
	Between      func(pos string)       // extra hook between the calls of a message program
	CtlDL        time.Time              // deadline argument used for WriteControl
	curCall      int
}

// callQuiet records an API call that is expected to fail (invalid request): no Failed flag.
func (e *WEnv) callQuiet(name string, f func() error) *APICall {
	ac := APICall{Name: name, W0: len(e.NC.Writes), Op0: len(e.NC.Ops)}
	if e.Mask != nil {
		e.Mask.Epoch = len(e.Calls)
		ac.Epoch = e.Mask.Epoch
	}
	e.curCall = len(e.Calls)
	ac.Err = f()
	ac.W1, ac.Op1 = len(e.NC.Writes), len(e.NC.Ops)
	e.Calls = append(e.Calls, ac)
	e.X.Obs("%s: %s -> %v (writes %d)", e.Name, name, ac.Err, ac.W1-ac.W0)
	return &e.Calls[len(e.Calls)-1]
}

// wpOnEnv, when set, is called by writePhase right after the writer environment exists.
var wpOnEnv func(e *WEnv)

func NewWEnv(x *explore.Ctx, cfg WConfig, big bool) *WEnv {
	e := &WEnv{X: x, Cfg: cfg, NC: netsim.NewConn(nil), WComp: true, Level: 1, Name: "w"}
	if cfg.Pool {
		e.Pool = NewLogPool()
		e.Pool.Who = e.Name
		e.Pool.Stamp = func() (int, int) { return e.curCall, len(e.NC.Ops) }
	}
	var pool websocket.BufferPool
	if e.Pool != nil {
		pool = e.Pool
	}
	e.C = websocket.VerifNewConn(e.NC, cfg.Server, 0, cfg.B, pool, cfg.Compress)
	e.Sizes = SizeSet(cfg.B, big)
	return e
}

// call runs one API call and records it.
func (e *WEnv) call(name string, f func() error) *APICall {
	ac := APICall{Name: name, W0: len(e.NC.Writes), Op0: len(e.NC.Ops)}
	if e.Mask != nil {
		e.Mask.Epoch = len(e.Calls)
		ac.Epoch = e.Mask.Epoch
	}
	if e.Pool != nil {
		e.Pool.Who = e.Name
	}
	e.curCall = len(e.Calls)
	ac.Err = f()
	ac.W1, ac.Op1 = len(e.NC.Writes), len(e.NC.Ops)
	e.Calls = append(e.Calls, ac)
	p := &e.Calls[len(e.Calls)-1]
	e.X.Obs("%s: %s -> %v (writes %d)", e.Name, name, ac.Err, ac.W1-ac.W0)
	if ac.Err != nil {
		e.Failed = true
		if e.OnErr != nil {
			e.OnErr(p)
		} else {
			e.X.Failf(fmt.Sprintf("C01:write-rejected:%s:%s:writer=%s", e.CurKind, apiKey(name), roleName(e.Cfg.Server)), "%s on a valid message (%s) returned %v (%s)", name, e.CurKind, ac.Err, e.Cfg)
		}
	}
	return p
}

func apiKey(name string) string {
	if i := strings.IndexAny(name, "( "); i > 0 {
		return name[:i]
	}
	return name
}

func (e *WEnv) sent(t int, p []byte, ac *APICall, comp bool) {
	if ac.Err == nil {
		e.Sent = append(e.Sent, SentMsg{Type: t, Payload: p, Call: len(e.Calls) - 1, Compress: comp})
	}
}

func (e *WEnv) compNow(t int) bool {
	return e.Cfg.Compress && e.WComp && (t == websocket.TextMessage || t == websocket.BinaryMessage)
}

// finishOpen records that an abandoned writer was closed implicitly by the next call.
func (e *WEnv) finishOpen(ac *APICall) {
	if e.openMsg != nil {
		m := *e.openMsg
		e.openMsg, e.open = nil, nil
		if ac.Err == nil || true {
			// the implicit close happens inside beginMessage; its error is not reported
			// by the library.  It is judged on the wire / by the reader.
			m.Call = len(e.Calls) - 1
			e.Sent = append(e.Sent, m)
		}
	}
}

const (
	PWriteMessage = iota
	PNextWriterAll
	PSplitWrite
	PSplitString
	PReadFrom
	PAbandon
	PJSON
	PPrepared
	NProgs
)

var ProgNames = [...]string{"WriteMessage", "NextWriter+Write+Close", "NextWriter+Write*k+Close", "NextWriter+WriteString*k+Close", "NextWriter+ReadFrom+Close", "NextWriter+Write,implicit-close", "WriteJSON", "WritePreparedMessage"}

type chooser func(n int, label string) int

// chunkReader delivers data in fixed chunks, optionally returning the last chunk with io.EOF.
type chunkReader struct {
	data    []byte
	chunk   int
	withEOF bool
	failAt  int // when > 0: the source fails (errSrc) once failAt-1 bytes have been delivered
	done    int
}

// errSrc is the failure of the application's own source reader (not a transport fault).
var errSrc = errors.New("source reader failed")

func (r *chunkReader) Read(p []byte) (int, error) {
	if r.failAt > 0 && r.done >= r.failAt-1 {
		return 0, errSrc
	}
	if r.failAt > 0 && len(p) > r.failAt-1-r.done {
		p = p[:r.failAt-1-r.done]
	}
	defer func(n0 int) { r.done += n0 - len(r.data) }(len(r.data))
	if len(r.data) == 0 {
		return 0, io.EOF
	}
	n := r.chunk
	if n > len(p) {
		n = len(p)
	}
	if n > len(r.data) {
		n = len(r.data)
	}
	copy(p, r.data[:n])
	r.data = r.data[n:]
	if len(r.data) == 0 && r.withEOF {
		return n, io.EOF
	}
	return n, nil
}

// betweenHook lets the caller interleave control writes between the calls of a program.
type betweenHook func(pos string)

// WriteMessageProg writes one data message of size n with program prog.
// pick chooses sub-dimensions (cuts, chunk sizes); between is invoked between API calls.
func (e *WEnv) WriteMessageProg(prog, mt, n, pattern int, pick, pick2 chooser, between betweenHook) {
	e.CurKind = "data"
	payload := Pattern(pattern, n)
	if mt == websocket.TextMessage && pattern != 4 && prog != PJSON {
		// text payloads are not validated by the library; keep arbitrary bytes
	}
	comp := e.compNow(mt)
	if between == nil {
		between = func(string) {}
	}
	if e.Between != nil {
		inner := between
		between = func(pos string) { inner(pos); e.Between(pos) }
	}
	switch prog {
	case PWriteMessage:
		ac := e.call(fmt.Sprintf("WriteMessage(%d,%d bytes)", mt, n), func() error { return e.C.WriteMessage(mt, payload) })
		e.finishOpen(ac)
		e.sent(mt, payload, ac, comp)
	case PNextWriterAll, PSplitWrite, PSplitString, PReadFrom, PAbandon:
		var w io.WriteCloser
		ac := e.call(fmt.Sprintf("NextWriter(%d)", mt), func() error {
			var err error
			w, err = e.C.NextWriter(mt)
			return err
		})
		e.finishOpen(ac)
		if ac.Err != nil {
			return
		}
		between("after-nextwriter")
		if e.Failed {
			return
		}
		switch prog {
		case PNextWriterAll, PAbandon:
			e.call(fmt.Sprintf("Write(%d)", n), func() error { k, err := w.Write(payload); return shortErr(k, n, err) })
		case PSplitWrite, PSplitString:
			cuts := cutsUpTo(e.Sizes, 0, n)
			a := cuts[pick(len(cuts), "cut1")]
			cuts2 := cutsUpTo(e.Sizes, a, n)
			// default for the second cut is n (two pieces)
			bi := pick2(len(cuts2), "cut2")
			b := cuts2[len(cuts2)-1-bi]
			pieces := [][]byte{payload[:a], payload[a:b], payload[b:]}
			for i, pc := range pieces {
				if i == 2 && b == n {
					break
				}
				pc := pc
				if prog == PSplitWrite {
					e.call(fmt.Sprintf("Write(%d)", len(pc)), func() error { k, err := w.Write(pc); return shortErr(k, len(pc), err) })
				} else {
					e.call(fmt.Sprintf("WriteString(%d)", len(pc)), func() error { k, err := io.WriteString(w, string(pc)); return shortErr(k, len(pc), err) })
				}
				if e.Failed {
					break
				}
				if i == 0 {
					between("between-writes")
				}
			}
		case PReadFrom:
			v := pick(9, "readfrom-chunk")
			chunk := []int{n + 1, 1, effB(e.Cfg.B), n + 1, 1, effB(e.Cfg.B), n + 1, 1, effB(e.Cfg.B)}[v]
			if chunk < 1 {
				chunk = 1
			}
			r := &chunkReader{data: payload, chunk: chunk, withEOF: v >= 3 && v < 6}
			if v >= 6 {
				// the application's source fails part-way (after 0 bytes, half, all but one): the copy
				// reports that error, the writer stays usable and Close sends what was copied
				r.failAt = 1 + []int{0, n / 2, n - 1}[v-6]
				if r.failAt < 1 {
					r.failAt = 1
				}
				var k int64
				ac := e.callQuiet(fmt.Sprintf("io.Copy(chunk=%d,source fails after %d)", chunk, r.failAt-1), func() error {
					var err error
					k, err = io.Copy(w, r)
					return err
				})
				switch {
				case ac.Err == errSrc:
					if int(k) != r.failAt-1 {
						e.X.Failf("C01:readfrom-count", "io.Copy from a source that failed after %d bytes reports %d bytes copied", r.failAt-1, k)
					}
					payload = payload[:k]
				case ac.Err == nil:
					e.X.Failf("C01:source-error-swallowed", "io.Copy returned nil although the source reader failed after %d bytes", r.failAt-1)
				default: // a transport fault got there first
					e.Failed = true
					if e.OnErr != nil {
						e.OnErr(ac)
					} else {
						e.X.Failf(fmt.Sprintf("C01:write-rejected:%s:io.Copy:writer=%s", e.CurKind, roleName(e.Cfg.Server)), "io.Copy on a valid message returned %v (%s)", ac.Err, e.Cfg)
					}
				}
				break
			}
			e.call(fmt.Sprintf("io.Copy(chunk=%d,dataWithEOF=%v)", chunk, v >= 3), func() error {
				k, err := io.Copy(w, r)
				return shortErr(int(k), n, err)
			})
		}
		if e.Failed {
			// after a failed write the program still closes the writer (C10 looks at it)
			e.call("Close", func() error { return w.Close() })
			return
		}
		between("before-close")
		if e.Failed {
			return
		}
		if prog == PAbandon {
			e.open = w
			e.openMsg = &SentMsg{Type: mt, Payload: payload, Compress: comp}
			return
		}
		ac = e.call("Close", func() error { return w.Close() })
		e.sent(mt, payload, ac, comp)
		if e.AfterClose != nil && ac.Err == nil {
			e.AfterClose(w)
		}
	case PJSON:
		v := string(Pattern(4, n))
		ac := e.call(fmt.Sprintf("WriteJSON(string of %d)", n), func() error { return e.C.WriteJSON(v) })
		e.finishOpen(ac)
		enc, _ := json.Marshal(v)
		e.sent(websocket.TextMessage, append(enc, '\n'), ac, e.compNow(websocket.TextMessage))
	case PPrepared:
		e.CloseAbandoned()
		if e.Failed {
			return
		}
		pm, err := websocket.NewPreparedMessage(mt, payload)
		if err != nil {
			e.X.Failf("C01:prepared-create", "NewPreparedMessage(%d,%d bytes): %v", mt, n, err)
		}
		ac := e.call(fmt.Sprintf("WritePreparedMessage(%d,%d bytes)", mt, n), func() error { return e.C.WritePreparedMessage(pm) })
		// WritePreparedMessage does not go through beginMessage: an abandoned writer stays open
		e.sent(mt, payload, ac, comp)
	}
}

func shortErr(k, n int, err error) error {
	if err == nil && k != n {
		return fmt.Errorf("short write %d of %d without error", k, n)
	}
	return err
}

// Control writes one control message through the given API variant.
// variant: 0 WriteControl, 1 WriteMessage, 2 NextWriter+Write+Close
func (e *WEnv) Control(variant, mt int, payload []byte) {
	e.CurKind = "control"
	if len(payload) > effB(e.Cfg.B) {
		e.CurKind = "control-larger-than-write-buffer"
	}
	defer func() { e.CurKind = "data" }()
	switch variant {
	case 0:
		dl := e.CtlDL
		ac := e.call(fmt.Sprintf("WriteControl(%d,%d bytes)", mt, len(payload)), func() error { return e.C.WriteControl(mt, payload, dl) })
		ac.CtlDL = &dl
		e.sent(mt, payload, ac, false)
	case 1:
		ac := e.call(fmt.Sprintf("WriteMessage(%d,%d bytes)", mt, len(payload)), func() error { return e.C.WriteMessage(mt, payload) })
		e.finishOpen(ac)
		e.sent(mt, payload, ac, false)
	case 2:
		var w io.WriteCloser
		ac := e.call(fmt.Sprintf("NextWriter(%d)", mt), func() error {
			var err error
			w, err = e.C.NextWriter(mt)
			return err
		})
		e.finishOpen(ac)
		if ac.Err != nil {
			return
		}
		e.call(fmt.Sprintf("Write(%d)", len(payload)), func() error { k, err := w.Write(payload); return shortErr(k, len(payload), err) })
		if e.Failed {
			return
		}
		ac = e.call("Close", func() error { return w.Close() })
		e.sent(mt, payload, ac, false)
	}
}

// CloseAbandoned ends an abandoned writer through the implicit close of a pong.
func (e *WEnv) CloseAbandoned() {
	if e.open != nil {
		e.Control(1, websocket.PongMessage, []byte("fin"))
	}
}

// DataSent returns the data messages among Sent.
func DataSent(s []SentMsg) []SentMsg {
	var r []SentMsg
	for _, m := range s {
		if m.Type == websocket.TextMessage || m.Type == websocket.BinaryMessage {
			r = append(r, m)
		}
	}
	return r
}

// ControlSent returns the control messages among Sent.
func ControlSent(s []SentMsg) []SentMsg {
	var r []SentMsg
	for _, m := range s {
		if m.Type >= 8 {
			r = append(r, m)
		}
	}
	return r
}

var controlKinds = []struct {
	variant, mt, n int
	name           string
}{
	{0, websocket.PingMessage, 0, "WriteControl(ping,0)"},
	{0, websocket.PingMessage, 125, "WriteControl(ping,125)"},
	{0, websocket.PongMessage, 1, "WriteControl(pong,1)"},
}

var controlKindsIdle = []struct {
	variant, mt, n int
	name           string
}{
	{0, websocket.PingMessage, 0, "WriteControl(ping,0)"},
	{0, websocket.PingMessage, 125, "WriteControl(ping,125)"},
	{1, websocket.PongMessage, 125, "WriteMessage(pong,125)"},
	{2, websocket.PingMessage, 125, "NextWriter(ping)+Write(125)+Close"},
	{1, websocket.PingMessage, 0, "WriteMessage(ping,0)"},
	{2, websocket.PongMessage, 3, "NextWriter(pong)+Write(3)+Close"},
}
