//go:build verif

package checks

import (
	"bytes"
	"fmt"
	"io"
	"time"

	"github.com/gorilla/websocket"
	"verif.local/engine/explore"
	"verif.local/ref/netsim"
	"verif.local/ref/wsref"
)

var levelsQuick = []int{1, 0, 9}
var levelsThorough = []int{1, 0, -2, 9, -1, 2, 3, 4, 5, 6, 7, 8}

func levelsOf(tier string) []int {
	if tier == "thorough" {
		return levelsThorough
	}
	return levelsQuick
}

// writePhase runs the shared write-side program space (DESIGN.md §3) and returns the
// writer environment.  Core dimensions (scenario + Pick) are enumerated completely, the
// rest is deviation-bounded.
func writePhase(x *explore.Ctx, cfg WConfig, prog int, tier string, mask *MaskRec, onErr func(*WEnv, *APICall)) *WEnv {
	big := tier == "thorough"
	if cfg.ForcePool {
		cfg.Pool = true
	} else {
		cfg.Pool = x.Choose(2, "pool") == 1
	}
	e := NewWEnv(x, cfg, big)
	e.Quick = tier == "quick"
	e.Mask = mask
	if onErr != nil {
		e.OnErr = func(ac *APICall) { onErr(e, ac) }
	}
	if wpOnEnv != nil {
		wpOnEnv(e)
	}
	// using a message writer after its Close (a second Close, a late Write) must fail and
	// must not put anything on the wire
	if late := x.Choose(3, "use-writer-after-close"); late > 0 {
		e.AfterClose = func(w io.WriteCloser) {
			n0 := len(e.NC.Out)
			var err error
			if late == 1 {
				err = e.callQuiet("late:Close", func() error { return w.Close() }).Err
			} else {
				err = e.callQuiet("late:Write", func() error { _, err := w.Write([]byte("late")); return err }).Err
			}
			x.Check(err != nil, "C01:closed-writer-usable", "use of a message writer after Close returned nil (variant %d)", late)
			x.Check(len(e.NC.Out) == n0, "C02:closed-writer-wrote", "use of a message writer after Close wrote %d bytes", len(e.NC.Out)-n0)
		}
	}
	levels := levelsOf(tier)
	var n int
	if cfg.SizeAbs > 0 {
		n = cfg.SizeAbs
	} else if cfg.SizeIdx > 0 {
		// the size dimension is spread over scenarios (finer work units for the worker pool)
		n = e.Sizes[(cfg.SizeIdx-1)%len(e.Sizes)]
		if cfg.SizeIdx-1 >= len(e.Sizes) {
			x.Obs("size index beyond the set for this buffer size")
			return e
		}
	} else {
		n = e.Sizes[x.Pick(len(e.Sizes), "size")]
	}
	nmsgs := 2
	if tier == "thorough" {
		nmsgs = 3
	}
	for mi := 0; mi < nmsgs; mi++ {
		pfx := fmt.Sprintf("m%d.", mi)
		p, sz := prog, n
		pick := x.Pick
		if cfg.Lean {
			pick = x.Choose
		}
		if mi > 0 {
			if x.Choose(2, pfx+"more") == 0 {
				break
			}
			if tier == "quick" {
				p = []int{PWriteMessage, PSplitWrite, PAbandon, PPrepared, PReadFrom}[x.Choose(5, pfx+"prog")]
			} else {
				p = x.Choose(NProgs, pfx+"prog")
			}
			// (default size of a further message is the 4th boundary size, not 0; the quick tier
			// offers every third boundary size for further messages)
			if tier == "quick" {
				k := (len(e.Sizes) + 2) / 3
				sz = e.Sizes[(3+3*x.Choose(k, pfx+"size"))%len(e.Sizes)]
			} else {
				sz = e.Sizes[(3+x.Choose(len(e.Sizes), pfx+"size"))%len(e.Sizes)]
			}
			pick = x.Choose
		}
		mt, pat := websocket.BinaryMessage, 0
		if !cfg.Lean {
			mt = []int{websocket.TextMessage, websocket.BinaryMessage}[x.Choose(2, pfx+"type")]
			npat := NPatterns
			if tier == "quick" {
				npat = 3
			}
			pat = x.Choose(npat, pfx+"pattern")
		}
		if cfg.Compress {
			if cfg.Lean {
			} else if li := x.Choose(len(levels), pfx+"level"); li != 0 || mi > 0 {
				lv := levels[li]
				if err := e.C.SetCompressionLevel(lv); err != nil {
					x.Failf("C01:setlevel", "SetCompressionLevel(%d): %v", lv, err)
				}
				x.Obs("SetCompressionLevel(%d)", lv)
				e.Level = lv
			}
			if x.Choose(2, pfx+"toggle-wcomp") == 1 {
				e.WComp = !e.WComp
				e.C.EnableWriteCompression(e.WComp)
				x.Obs("EnableWriteCompression(%v)", e.WComp)
			}
		}
		nIdle, nMid := len(controlKindsIdle), len(controlKinds)
		if tier == "quick" {
			nIdle, nMid = 4, 2
		}
		if k := x.Choose(1+nIdle, pfx+"ctl-before"); k > 0 {
			ck := controlKindsIdle[k-1]
			e.Control(ck.variant, ck.mt, Pattern(3, ck.n))
		}
		mid := x.Choose(1+3*nMid, pfx+"ctl-mid")
		positions := []string{"after-nextwriter", "between-writes", "before-close"}
		between := func(pos string) {
			if mid == 0 {
				return
			}
			if positions[(mid-1)/nMid] == pos {
				ck := controlKinds[(mid-1)%nMid]
				e.Control(ck.variant, ck.mt, Pattern(3, ck.n))
			}
		}
		e.WriteMessageProg(p, mt, sz, pat, pick, x.Choose, between)
		if e.Failed {
			return e
		}
	}
	if e.BeforeFinish != nil {
		e.BeforeFinish()
	}
	e.CloseAbandoned()
	return e
}

func wScenarios(id, tier string, body func(x *explore.Ctx, cfg WConfig, prog int, tier string)) []*explore.Scenario {
	var scs []*explore.Scenario
	bufs := BufSizesQuick
	bound := 2
	if tier == "thorough" {
		bufs = BufSizesThorough
		bound = 3
	}
	for _, server := range []bool{true, false} {
		for _, comp := range []bool{false, true} {
			for _, b := range bufs {
				nsizes := len(SizeSet(b, tier == "thorough"))
				for prog := 0; prog < NProgs; prog++ {
					for si := 1; si <= nsizes; si++ {
						if tier == "quick" && (id == "c10" || id == "c20") && si%2 == 0 {
							continue // the fault checks take every other boundary size in the quick tier
						}
						if tier == "quick" && comp && si%2 == 0 {
							continue // with compression frame boundaries follow the compressed size: every other size
						}
						if tier == "quick" && b == 1 && prog != PWriteMessage && prog != PNextWriterAll {
							continue // WriteBufferSize 1 behaves as 125 (clamp): only the basic programs exercise the clamp
						}
						cfg := WConfig{Server: server, B: b, Compress: comp, SizeIdx: si}
						prog := prog
						bd := bound
						if tier == "thorough" {
							// the whole product with every value set at deviation bound 2; bound 3 on a
							// sub-lattice (two buffer sizes, every fourth boundary size) so that the tier
							// completes
							bd = 2
							if (b == 125 || b == 300) && si%4 == 1 {
								bd = 3
							}
						}
						scs = append(scs, &explore.Scenario{
							Name:  fmt.Sprintf("%s/writer=%s/deflate=%v/B=%d/prog=%d/size#%d", id, roleName(server), comp, b, prog, si),
							Bound: bd,
							Body:  func(x *explore.Ctx) { body(x, cfg, prog, tier) },
						})
					}
				}
			}
		}
	}
	if tier == "quick" {
		// messages larger than 64 KiB (64-bit length form; with compression the only sizes at which the
		// compressor emits data during Write rather than at Close) are thorough-tier sizes of S(B);
		// the quick tier takes one such size with the streaming programs at deviation bound 1
		for _, server := range []bool{true, false} {
			for _, comp := range []bool{true, false} {
				for _, b := range []int{125, 0} {
					for _, prog := range []int{PNextWriterAll, PSplitWrite, PReadFrom, PJSON} {
						if !comp && prog != PNextWriterAll {
							continue
						}
						cfg := WConfig{Server: server, B: b, Compress: comp, SizeAbs: 65537}
						prog := prog
						scs = append(scs, &explore.Scenario{
							Name:  fmt.Sprintf("%s/big/writer=%s/deflate=%v/B=%d/prog=%d/size=65537", id, roleName(server), comp, b, prog),
							Bound: 1,
							Body:  func(x *explore.Ctx) { body(x, cfg, prog, tier) },
						})
					}
				}
			}
		}
	}
	return scs
}

func init() {
	Register(&Check{
		ID:        "C01",
		Technique: "deviation-bounded exhaustive exploration of write programs x read programs on a real Conn pair; oracle = the list of messages handed to the write API",
		Rule:      "core product {role x deflate x WriteBufferSize x size in S(B) x write program (+ first cut)} enumerated completely; around each core point every other dimension (type, pattern, level, write-compression toggle, pool, interleaved control writes, 2nd/3rd message, read buffer, read program, read size, chunking, abandon) explored to the deviation bound. non-trivial = at least one frame crossed the wire and a non-default choice was taken; distinct = distinct observation hash (API results + wire digest + delivery)",
		Assumptions: []string{
			"payload sizes restricted to the boundary set S(B) of DESIGN.md §3; sequences of at most 2 (quick) / 3 (thorough) messages",
			"transport is the scripted in-memory netsim.Conn",
		},
		Budget:    map[string]time.Duration{"quick": 150 * time.Second, "thorough": 40 * time.Minute},
		Bound:     map[string]string{"quick": "deviations <= 2, <= 2 messages, levels {1,0,-2,9}", "thorough": "deviations <= 2 over the whole product with full value sets (<= 3 messages, levels -2..9, sizes 65535..65537, B up to 70000) and <= 3 on a sub-lattice (B in {125,300}, every fourth boundary size)"},
		Scenarios: func(tier string) []*explore.Scenario { return wScenarios("c01", tier, c01Body) },
	})
}

func c01Body(x *explore.Ctx, cfg WConfig, prog int, tier string) {
	e := writePhase(x, cfg, prog, tier, nil, nil)
	readBack(x, e, "C01")
}

var rbsChoices = []int{0, 1, 126, 256}
var rbufChoices = []int{4096, 1, 2, 7, 125}
var chunkChoices = []int{0, 1, 2, 125, 3, 7, 126}

// readBack feeds the writer's bytes to a peer Conn and compares with what was sent.
func readBack(x *explore.Ctx, e *WEnv, id string) {
	x.NonTrivial()
	cfg := e.Cfg
	stream := e.NC.Out
	nrbs, nrbuf, nchunk := len(rbsChoices), len(rbufChoices), len(chunkChoices)
	if e.Quick {
		nrbs, nrbuf, nchunk = 3, 4, 4
	}
	rbs := rbsChoices[x.Choose(nrbs, "ReadBufferSize")]
	// one dimension: read program incl. abandoning the first message (so that "abandon, then
	// read the next message" costs one deviation plus one for the second message)
	rprog, abandon := 0, 0
	switch v := x.Choose(8, "readprog"); {
	case v < 4:
		rprog = v
	default:
		rprog, abandon = 1, v-3 // 1: after 0 bytes, 2: after 1 byte, 3: after half, 4: after 3 bytes
	}
	rbuf := 4096
	if rprog == 1 {
		rbuf = rbufChoices[x.Choose(nrbuf, "readsize")]
	}
	chunk := chunkChoices[x.Choose(nchunk, "chunking")]
	nc := netsim.NewConn(stream)
	nc.NoReadLog = true
	if chunk > 0 {
		nc.Chunk = netsim.ChunkFixed(chunk)
	}
	c := websocket.VerifNewConn(nc, !cfg.Server, rbs, 150, nil, cfg.Compress)
	var hl HandlerLog
	hl.Install(c)
	want := DataSent(e.Sent)
	wantCtl := ControlSent(e.Sent)
	key := func(what string) string {
		return fmt.Sprintf("%s:%s:writer=%s:deflate=%v", id, what, roleName(cfg.Server), cfg.Compress)
	}
	var got []wsref.Message
	var endErr error
	switch rprog {
	case 0, 1:
		for i := 0; i <= len(want); i++ {
			if rprog == 0 {
				t, p, err := c.ReadMessage()
				if err != nil {
					endErr = err
					break
				}
				got = append(got, wsref.Message{Type: t, Payload: p})
				continue
			}
			t, r, err := c.NextReader()
			if err != nil {
				endErr = err
				break
			}
			var all []byte
			buf := make([]byte, rbuf)
			limit := -1
			if i == 0 && abandon > 0 && len(want) > 0 {
				limit = min([]int{0, 0, 1, len(want[0].Payload) / 2, 3}[abandon], len(want[0].Payload))
			}
			abandoned := false
			for {
				if limit >= 0 && len(all) >= limit {
					abandoned = true
					break
				}
				b := buf
				if limit >= 0 && len(b) > limit-len(all) {
					b = b[:limit-len(all)]
				}
				n, err := r.Read(b)
				all = append(all, b[:n]...)
				if err == io.EOF {
					break
				}
				if err != nil {
					x.Failf(key("read-error"), "Read of message %d failed after %d bytes: %v", i, len(all), err)
				}
			}
			if abandoned {
				x.Check(i < len(want) && bytes.HasPrefix(want[i].Payload, all) && t == want[i].Type, key("abandoned-prefix"), "abandoned message %d: delivered %s is not a prefix of what was sent", i, short(all))
				got = append(got, wsref.Message{Type: t, Payload: want[i].Payload}) // judged as prefix above
				continue
			}
			got = append(got, wsref.Message{Type: t, Payload: all})
		}
		x.Check(endErr != nil, key("extra-message"), "peer delivered more messages than were sent: %s, sent %d", fmtMsgs(got), len(want))
		x.Obs("read: %d messages, end=%v", len(got), endErr != nil)
		x.Check(len(got) == len(want), key("count"), "peer delivered %d messages, %d were sent (end error %v); delivered %s", len(got), len(want), endErr, fmtMsgs(got))
		for i := range want {
			x.Check(got[i].Type == want[i].Type, key("type"), "message %d: type %d delivered, %d sent", i, got[i].Type, want[i].Type)
			x.Check(bytes.Equal(got[i].Payload, want[i].Payload), key("payload"), "message %d (%d bytes sent): delivered %s (%d bytes)", i, len(want[i].Payload), short(got[i].Payload), len(got[i].Payload))
		}
	default:
		term := ""
		if rprog == 3 {
			term = ","
		}
		all, err := io.ReadAll(io.LimitReader(websocket.JoinMessages(c, term), 1<<26))
		x.Check(err != nil, key("join-end"), "JoinMessages reader ended without the connection's error")
		var exp []byte
		for _, m := range want {
			exp = append(exp, m.Payload...)
			exp = append(exp, term...)
		}
		x.Obs("join: %d bytes", len(all))
		x.Check(bytes.Equal(all, exp), key("join-payload"), "JoinMessages delivered %d bytes %s, want %d bytes %s", len(all), short(all), len(exp), short(exp))
	}
	// control messages reached the handlers, in order, exact payload, and never as data
	var wantEv []string
	for _, m := range wantCtl {
		switch m.Type {
		case websocket.PingMessage:
			wantEv = append(wantEv, "ping:"+string(m.Payload))
		case websocket.PongMessage:
			wantEv = append(wantEv, "pong:"+string(m.Payload))
		}
	}
	x.Check(fmt.Sprint(hl.Events) == fmt.Sprint(wantEv), key("control"), "peer handlers saw %d control messages %.80q, %d were sent %.80q", len(hl.Events), fmt.Sprint(hl.Events), len(wantEv), fmt.Sprint(wantEv))
}
